/* harness-facing interface of the hook runtime (see rt/myth_verif_rt.c) */
#pragma once
#ifndef MYTH_VERIF_RT_H_
#define MYTH_VERIF_RT_H_
#include <stdint.h>
#include <stddef.h>
#include <stdio.h>
#include <time.h>

#ifdef __cplusplus
extern "C" {
#endif

/* one global sequence: stamp(A's return) < stamp(B's call) implies A returned
   before B was called (atomic fetch_add, seq_cst) */
uint64_t myth_verif_stamp(void);

/* report a violation: prints "VVIOL key=<key> <message>", dumps witness
   context to stderr and _exit(97).  Only the first caller wins. */
void myth_verif_violation(const char * key, const char * fmt, ...)
  __attribute__((format(printf, 2, 3), noreturn));

/* non-blocking check: between begin and end on this OS thread no
   blocking-path point (class B) may be hit */
void myth_verif_nb_begin(const char * what);
void myth_verif_nb_end(void);

/* counters (summed over all OS threads) */
uint64_t myth_verif_hits_id(int id);
uint64_t myth_verif_hits(const char * name);
int myth_verif_id_of(const char * name);
const char * myth_verif_name_of(int id);
/* JSON object with all non-zero counters, pairs, ledger statistics */
int myth_verif_summary_json(char * buf, size_t n);

/* ledger queries */
uint32_t myth_verif_desc_gen(void * th);
uint64_t myth_verif_finished_stamp(void * th, uint32_t gen); /* 0 = unknown */
long myth_verif_fresh_desc(void);
long myth_verif_fresh_stack(void);
long myth_verif_fresh_stack_bytes(void);
long myth_verif_live_desc(void);
long myth_verif_live_stack(void);
long myth_verif_desc_acq_count(void);
long myth_verif_desc_rel_count(void);
long myth_verif_stack_acq_count(void);
long myth_verif_stack_rel_count(void);
/* bounds of the stack registered under stack-top pointer 'stk' (0 if none) */
int myth_verif_stack_bounds(void * stk, void ** base, size_t * size);
/* the live stack that contains address p, if any */
int myth_verif_stack_containing(void * p, void ** base, size_t * size);
/* callback run inside DESC_REL (on the releasing worker) before the ledger
   marks the record free; may call myth_verif_violation */
void myth_verif_set_desc_rel_cb(void (*cb)(void * th));
void myth_verif_set_desc_acq_cb(void (*cb)(void * th));

/* deadlock watchdog */
void myth_verif_set_deadlock_cb(void (*cb)(FILE * out));
void myth_verif_watchdog_enable(int on);
uint64_t myth_verif_idle_iterations(void);

/* virtual clock (used by hr_gettime when enabled) */
void myth_verif_vclock_enable(long sec, long nsec, long step_ns);
void myth_verif_vclock_enable2(long sec, long nsec, long step_sec, long step_nsec);
void myth_verif_vclock_disable(void);
void myth_verif_vclock_set_step(long step_ns);
void myth_verif_vclock_peek(struct timespec * ts);  /* no advance */
uint64_t myth_verif_vclock_reads(void);
/* DAG Recorder time stamps: 0 = the real counter, otherwise every read returns v */
void myth_verif_dr_vclock_set(unsigned long long v);
unsigned long long myth_verif_dr_vclock_reads(void);
unsigned long long myth_verif_dr_clock(unsigned long long real_tsc);

/* worker rank of the calling OS thread as seen by the hooks (-1 if none) */
int myth_verif_my_rank(void);

/* real (unwrapped) sleeping primitives for harness use */
void myth_verif_real_usleep(unsigned us);
void myth_verif_real_yield(void);

#ifdef __cplusplus
}
#endif
#endif
