/*
 * myth_verif_rt.c --- runtime behind the MYTH_VERIF hooks.
 *
 * Linked into every hooked build.  All state here is either per OS thread,
 * relaxed atomics, or protected by leaf spinlocks of its own; it never calls
 * back into the library and never takes a library lock.
 */
#ifndef MYTH_VERIF
#define MYTH_VERIF 1
#endif
#ifndef _GNU_SOURCE
#define _GNU_SOURCE
#endif
#include <stdio.h>
#include <stdlib.h>
#include <string.h>
#include <stdarg.h>
#include <stdint.h>
#include <stdatomic.h>
#include <unistd.h>
#include <errno.h>
#include <pthread.h>
#include <sched.h>
#include <time.h>
#include <sys/mman.h>
#include <sys/syscall.h>

#include "myth_verif.h"
#include "myth_verif_rt.h"

#if defined(__SANITIZE_ADDRESS__)
#include <sanitizer/asan_interface.h>
#define RT_ASAN 1
#else
#define RT_ASAN 0
#endif

/* real (unwrapped) primitives exported by the library when it is linked */
extern int real_pthread_create(pthread_t *, const pthread_attr_t *,
                               void *(*)(void *), void *) __attribute__((weak));

/* ------------------------------------------------------------------ ids */

#define NAME_(name, cls) #name,
#define CLS_(name, cls) #cls[0],
static const char * const g_names[MYTH_VERIF_N_IDS + 1] = { MYTH_VERIF_IDS(NAME_) 0 };
static const char g_cls[MYTH_VERIF_N_IDS + 1] = { MYTH_VERIF_IDS(CLS_) 0 };

int myth_verif_id_of(const char * name) {
  int i;
  for (i = 0; i < MYTH_VERIF_N_IDS; i++)
    if (strcmp(g_names[i], name) == 0) return i;
  return -1;
}
const char * myth_verif_name_of(int id) {
  if (id < 0 || id >= MYTH_VERIF_N_IDS) return "?";
  return g_names[id];
}

/* ------------------------------------------------------------------ config */

enum { PROF_CALM = 0, PROF_NOISE, PROF_TARGETED };

static struct {
  int inited;
  uint64_t seed;
  int have_seed;
  int profile;
  int noise_level;             /* 1..3 */
  int n_targets;
  int targets[8];
  unsigned char is_target[MYTH_VERIF_N_IDS];
  int target_p;                /* out of 256 */
  int target_us_max;
  long sleep_budget_us;        /* total injected sleep allowed */
  int pairs;
  int watchdog;
  int stack_fill;
  int trace_rule;
  int verbose;
  long spin_limit;
  unsigned char no_inject[MYTH_VERIF_N_IDS];
  double spin_secs;
} cfg;

static _Atomic long g_slept_us;
static _Atomic int g_violated;
static _Atomic uint64_t g_stamp = 1;

static uint64_t mix64(uint64_t x) {
  x += 0x9e3779b97f4a7c15ULL;
  x = (x ^ (x >> 30)) * 0xbf58476d1ce4e5b9ULL;
  x = (x ^ (x >> 27)) * 0x94d049bb133111ebULL;
  return x ^ (x >> 31);
}

static void in_lock_init(void);
static int g_id_mtx_lock_before_cas = -2;
static void cfg_init(void) {
  if (cfg.inited) return;
  const char * s;
  cfg.seed = 12345; cfg.have_seed = 0;
  if ((s = getenv("VERIF_SEED")) && *s) { cfg.seed = strtoull(s, 0, 10); cfg.have_seed = 1; }
  if ((s = getenv("MYTH_VERIF_RUNSEED")) && *s) { cfg.seed = mix64(cfg.seed ^ strtoull(s, 0, 10)); cfg.have_seed = 1; }
  cfg.profile = PROF_CALM;
  cfg.noise_level = 1;
  cfg.target_p = 64;
  cfg.target_us_max = 300;
  cfg.sleep_budget_us = 1500000;
  cfg.watchdog = 1;
  cfg.stack_fill = 1;
  cfg.trace_rule = 1;
  cfg.spin_limit = 1L << 26;
  cfg.spin_secs = 60.0;
  if ((s = getenv("MYTH_VERIF_PROFILE")) && *s) {
    if (strncmp(s, "noise", 5) == 0) {
      cfg.profile = PROF_NOISE;
      if (s[5] >= '1' && s[5] <= '3') cfg.noise_level = s[5] - '0';
    } else if (strncmp(s, "targeted:", 9) == 0) {
      cfg.profile = PROF_TARGETED;
      char buf[512];
      strncpy(buf, s + 9, sizeof(buf) - 1); buf[sizeof(buf) - 1] = 0;
      char * save = 0;
      char * tok = strtok_r(buf, ",", &save);
      while (tok && cfg.n_targets < 8) {
        int id = (tok[0] >= '0' && tok[0] <= '9') ? atoi(tok) : myth_verif_id_of(tok);
        if (id >= 0 && id < MYTH_VERIF_N_IDS) {
          cfg.targets[cfg.n_targets++] = id;
          cfg.is_target[id] = 1;
        }
        tok = strtok_r(0, ",", &save);
      }
    }
  }
  if ((s = getenv("MYTH_VERIF_NOINJECT")) && *s) {
    char buf[512];
    strncpy(buf, s, sizeof(buf) - 1); buf[sizeof(buf) - 1] = 0;
    char * save = 0;
    char * tok = strtok_r(buf, ",", &save);
    while (tok) {
      int id = myth_verif_id_of(tok);
      if (id >= 0 && id < MYTH_VERIF_N_IDS) cfg.no_inject[id] = 1;
      tok = strtok_r(0, ",", &save);
    }
  }
  if ((s = getenv("MYTH_VERIF_TARGET_P")) && *s) cfg.target_p = atoi(s);
  if ((s = getenv("MYTH_VERIF_TARGET_US")) && *s) cfg.target_us_max = atoi(s);
  if ((s = getenv("MYTH_VERIF_SLEEP_BUDGET_US")) && *s) cfg.sleep_budget_us = atol(s);
  if ((s = getenv("MYTH_VERIF_PAIRS")) && *s) cfg.pairs = atoi(s);
  if ((s = getenv("MYTH_VERIF_WATCHDOG")) && *s) cfg.watchdog = atoi(s);
  if ((s = getenv("MYTH_VERIF_STACK_FILL")) && *s) cfg.stack_fill = atoi(s);
  if ((s = getenv("MYTH_VERIF_TRACE_RULE")) && *s) cfg.trace_rule = atoi(s);
  if ((s = getenv("MYTH_VERIF_VERBOSE")) && *s) cfg.verbose = atoi(s);
  if ((s = getenv("MYTH_VERIF_SPIN_LIMIT")) && *s) cfg.spin_limit = atol(s);
  if ((s = getenv("MYTH_VERIF_SPIN_SECS")) && *s) cfg.spin_secs = atof(s);
  in_lock_init();
  g_id_mtx_lock_before_cas = myth_verif_id_of("MTX_LOCK_BEFORE_CAS");
  cfg.inited = 1;
}

static void __attribute__((constructor)) rt_ctor(void) { cfg_init(); }

/* ------------------------------------------------------------------ per OS thread */

#define RING 128
typedef struct vt {
  uint64_t rng;
  uint64_t hits[MYTH_VERIF_N_IDS];
  int used;
  int shared;   /* overflow slot used by several OS threads: no per-thread identity */
  int rank;
  int tid;
  int nb_depth;
  const char * nb_what;
  int last_spin_id;
  uint64_t lock_run;
  int rep_id;
  uint64_t rep_count;
  struct timespec rep_t0;
  struct timespec lock_t0;
  uint64_t spin_run;
  struct timespec spin_t0;
  const void * pending_q;
  int pending_kind;
  void * fin_pre_th;
  uint32_t fin_pre_gen;
  unsigned ring_pos;
  struct { uint64_t tsc; int id; long extra; } ring[RING];
} vt_t;

#define MAX_VT 512
static vt_t g_vt[MAX_VT];
static _Atomic int g_n_vt;
static __thread vt_t * tls_vt;

static inline uint64_t rdtsc_(void) {
  uint32_t lo, hi;
  __asm__ __volatile__("rdtsc" : "=a"(lo), "=d"(hi));
  return ((uint64_t)hi << 32) | lo;
}

/* When the table is full, slots whose OS thread has exited are taken over (long init/fini histories create
   thousands of worker OS threads).  A slot is reclaimed only if its tid no longer exists, so its former owner
   is certainly gone; the hit counters stay (they are totals), the per-thread state is reset.  If nothing can be
   reclaimed the last slot is shared and marked so: checks that need a per-thread identity skip it. */
static _Atomic int g_vt_reclaim_lock;
static void vt_reset(vt_t * t, int i) {
  t->used = 1;
  t->rank = -1;
  t->tid = (int)syscall(SYS_gettid);
  t->rng = mix64(cfg.seed ^ ((uint64_t)(i + 1) << 32) ^ (uint64_t)t->tid) | 1;
  t->last_spin_id = -1;
  t->nb_depth = 0; t->lock_run = 0; t->rep_id = -1; t->spin_run = 0;
  t->pending_q = 0; t->pending_kind = 0; t->fin_pre_th = 0; t->fin_pre_gen = 0;
}
static vt_t * vt_get(void) {
  vt_t * t = tls_vt;
  if (t) return t;
  cfg_init();
  int i = atomic_fetch_add(&g_n_vt, 1);
  if (i >= MAX_VT - 1) {
    int j, found = -1, exp = 0;
    while (!atomic_compare_exchange_weak(&g_vt_reclaim_lock, &exp, 1)) exp = 0;
    int pid = (int)getpid();
    for (j = 0; j < MAX_VT - 1; j++) {
      if (g_vt[j].used && g_vt[j].tid > 0 && syscall(SYS_tgkill, pid, g_vt[j].tid, 0) == -1 && errno == ESRCH) { found = j; break; }
    }
    if (found >= 0) { t = &g_vt[found]; vt_reset(t, found); }
    atomic_store(&g_vt_reclaim_lock, 0);
    if (found < 0) { t = &g_vt[MAX_VT - 1]; t->used = 1; t->shared = 1; t->rank = -1; t->last_spin_id = -1; if (!t->rng) t->rng = mix64(cfg.seed) | 1; }
    tls_vt = t;
    return t;
  }
  t = &g_vt[i];
  vt_reset(t, i);
  tls_vt = t;
  return t;
}

static inline uint64_t rnd(vt_t * t) {
  uint64_t x = t->rng;
  x ^= x << 13; x ^= x >> 7; x ^= x << 17;
  t->rng = x;
  return x;
}

static inline void ring_add(vt_t * t, int id, long extra) {
  unsigned p = t->ring_pos++ % RING;
  t->ring[p].tsc = rdtsc_();
  t->ring[p].id = id;
  t->ring[p].extra = extra;
}

int myth_verif_my_rank(void) { return vt_get()->rank; }

uint64_t myth_verif_stamp(void) { return atomic_fetch_add(&g_stamp, 1); }

void myth_verif_real_usleep(unsigned us) {
  /* raw system call: in the ld/dl builds nanosleep/usleep are themselves redirected to the library
     (and the library's real_nanosleep goes through the wrapped symbol when linked statically) */
  struct timespec ts = { us / 1000000, (long)(us % 1000000) * 1000 };
  syscall(SYS_nanosleep, &ts, 0);
}
void myth_verif_real_yield(void) {
  syscall(SYS_sched_yield);
}

/* ------------------------------------------------------------------ violation */

static void (*g_deadlock_cb)(FILE *);

static void dump_rings(FILE * out) {
  int n = atomic_load(&g_n_vt);
  if (n > MAX_VT) n = MAX_VT;
  int i;
  for (i = 0; i < n; i++) {
    vt_t * t = &g_vt[i];
    if (!t->used || t->ring_pos == 0) continue;
    fprintf(out, "  os-thread %d (tid %d, worker %d) last events:", i, t->tid, t->rank);
    unsigned k, cnt = t->ring_pos < 12 ? t->ring_pos : 12;
    for (k = 0; k < cnt; k++) {
      unsigned p = (t->ring_pos - cnt + k) % RING;
      int id = t->ring[p].id;
      if (id >= 0) fprintf(out, " %s", myth_verif_name_of(id));
      else fprintf(out, " ev%d(%ld)", -id, t->ring[p].extra);
    }
    fprintf(out, "\n");
  }
}

void myth_verif_violation(const char * key, const char * fmt, ...) {
  int expected = 0;
  if (!atomic_compare_exchange_strong(&g_violated, &expected, 1)) {
    /* someone else is already reporting; park */
    for (;;) { myth_verif_real_usleep(100000); }
  }
  char msg[1024];
  va_list ap;
  va_start(ap, fmt);
  vsnprintf(msg, sizeof(msg), fmt, ap);
  va_end(ap);
  char line[1400];
  int n = snprintf(line, sizeof(line), "\nVVIOL key=%s msg=%s\n", key, msg);
  if (n > 0) { ssize_t w = write(1, line, (size_t)n); (void)w; }
  fprintf(stderr, "VERIF VIOLATION key=%s : %s\n", key, msg);
  fprintf(stderr, "  seed=%llu profile=%s\n", (unsigned long long)cfg.seed,
          getenv("MYTH_VERIF_PROFILE") ? getenv("MYTH_VERIF_PROFILE") : "calm");
  dump_rings(stderr);
  {
    char buf[16384];
    myth_verif_summary_json(buf, sizeof(buf));
    char l2[17000];
    int m = snprintf(l2, sizeof(l2), "VRT %s\n", buf);
    if (m > 0) { ssize_t w = write(1, l2, (size_t)m); (void)w; }
  }
  fflush(stderr);
  _exit(97);
}

/* ------------------------------------------------------------------ pairs */

static _Atomic uint32_t g_last_ev;   /* (rank+1)<<16 | id */
static unsigned char g_pairs[MYTH_VERIF_N_IDS][MYTH_VERIF_N_IDS];

/* ------------------------------------------------------------------ delays */

static void spin_cycles(unsigned n) {
  unsigned i;
  for (i = 0; i < n; i++) __asm__ __volatile__("pause" ::: "memory");
}

static void do_sleep(vt_t * t, unsigned us) {
  (void)t;
  if (atomic_load_explicit(&g_slept_us, memory_order_relaxed) > cfg.sleep_budget_us) {
    spin_cycles(200 + us);
    return;
  }
  atomic_fetch_add_explicit(&g_slept_us, us, memory_order_relaxed);
  myth_verif_real_usleep(us);
}

/* Points that sit inside a spin-lock critical section which some party re-enters in a retry loop
   (try-join / timed-join polling, wake-up retry, idle workers' steal attempts, key allocator):
   the delay injected there must keep the CPU.  A holder that gives up its time slice inside the lock
   (sched_yield / nanosleep) and re-takes the lock a microsecond after releasing it starves a spinning
   waiter for tens of seconds on a loaded machine - observed as a 60 s stall of a finishing thread on
   its own record lock against a timed-join poller (unchanged library): a schedule the real code
   cannot produce, because it never sleeps inside these sections. */
static unsigned char g_in_lock[MYTH_VERIF_N_IDS];
static void in_lock_init(void) {
  static const char * const names[] = {
    "TRYJOIN_LOCKED", "JOIN_LOCKED", "DETACH_LOCKED", "FIN_LOCKED", "SQ_ENQ_LOCKED", "SQ_DEQ_LOCKED",
    "Q_POP_SLOW_LOCKED", "Q_TAKE_LOCKED", "Q_TAKE_AFTER_INC", "Q_TAKE_AFTER_FENCE", "Q_TAKE_BEFORE_ROLLBACK",
    "Q_PUT_LOCKED", "Q_PASS_LOCKED", "WSAPI_TAKE_AFTER_INC", "WSAPI_TAKE_AFTER_FENCE", "WSAPI_PEEK_AFTER_INC",
    "KEY_ALLOC_BEFORE_CAS", "KEY_DEALLOC_BEFORE_CAS", 0 };
  int i;
  for (i = 0; names[i]; i++) { int id = myth_verif_id_of(names[i]); if (id >= 0 && id < MYTH_VERIF_N_IDS) g_in_lock[id] = 1; }
}

static void inject(vt_t * t, int id) {
  int in_lock = g_in_lock[id];
  switch (cfg.profile) {
  case PROF_CALM:
    return;
  case PROF_NOISE: {
    uint64_t r = rnd(t);
    unsigned lvl = (unsigned)cfg.noise_level;
    if ((r & 63) < lvl) {
      spin_cycles(10 + (unsigned)((r >> 8) % 3000));
    } else if (((r >> 6) & 255) < lvl) {
      if (in_lock) spin_cycles(2000 + (unsigned)((r >> 28) % 6000)); else myth_verif_real_yield();
    } else if (((r >> 14) & 4095) < lvl) {
      if (in_lock) spin_cycles(20000 + (unsigned)((r >> 28) % 60000)); else do_sleep(t, 20 + (unsigned)((r >> 28) % 200));
    }
    return;
  }
  case PROF_TARGETED: {
    if (!cfg.is_target[id]) return;
    uint64_t r = rnd(t);
    if ((int)(r & 255) < cfg.target_p) {
      unsigned us = 20 + (unsigned)((r >> 8) % (unsigned)cfg.target_us_max);
      if (((r >> 40) & 1) && !in_lock) do_sleep(t, us); else spin_cycles(us * 40);
    }
    return;
  }
  }
}

/* ------------------------------------------------------------------ hooks: points */

static void spin_verdict(vt_t * t, int id, uint64_t run, struct timespec * t0);
void myth_verif_point(int id) {
  vt_t * t = vt_get();
  t->hits[id]++;
  if (t->shared) { if (cfg.profile != PROF_CALM && !cfg.no_inject[id]) inject(t, id); return; }
  /* points inside the sleep queue's critical section sit inside retry loops (wake spins):
     they do not end a spin run */
  if (id != MYTH_VERIF_ID_SQ_DEQ_LOCKED && id != MYTH_VERIF_ID_SQ_ENQ_LOCKED) { t->last_spin_id = -1; t->lock_run = 0; }
  ring_add(t, id, 0);
  /* a blocking call that goes round its retry loop for ever instead of blocking (e.g. mutex lock whose seat
     reservation can never succeed): the same retry point, and no other point, 2^26 times and for spin_secs */
  if (id == g_id_mtx_lock_before_cas) {
    if (t->rep_id != id) { t->rep_id = id; t->rep_count = 0; clock_gettime(CLOCK_MONOTONIC, &t->rep_t0); }
    if ((++t->rep_count & 0xfffff) == 0 && t->rep_count > (1ULL << 26)) spin_verdict(t, id, t->rep_count, &t->rep_t0);
  } else t->rep_id = -1;
  if (t->nb_depth && g_cls[id] == 'B') {
    myth_verif_violation("nonblocking:blocked",
                         "blocking path %s entered during non-blocking call %s (worker %d)",
                         myth_verif_name_of(id), t->nb_what ? t->nb_what : "?", t->rank);
  }
  if (cfg.pairs) {
    uint32_t me = ((uint32_t)(t->rank + 1) << 16) | (uint32_t)id;
    uint32_t prev = atomic_exchange_explicit(&g_last_ev, me, memory_order_relaxed);
    if (prev && (prev >> 16) != (me >> 16)) {
      g_pairs[prev & 0xffff][id] = 1;
    }
  }
  if (cfg.profile != PROF_CALM && !cfg.no_inject[id]) inject(t, id);
}

void myth_verif_cov(int id) {
  vt_t * t = vt_get();
  t->hits[id]++;
  if (id == MYTH_VERIF_ID_SPINLOCK_WAITED) t->lock_run = 0;   /* the lock was obtained */
}

static void spin_verdict(vt_t * t, int id, uint64_t run, struct timespec * t0) {
  struct timespec now;
  clock_gettime(CLOCK_MONOTONIC, &now);
  double dt = (double)(now.tv_sec - t0->tv_sec) + 1e-9 * (double)(now.tv_nsec - t0->tv_nsec);
  if (dt > cfg.spin_secs) {
    char key[128];
    snprintf(key, sizeof(key), "livelock:%s", myth_verif_name_of(id));
    myth_verif_violation(key, "spin site %s iterated %llu times over %.1f s on worker %d",
                         myth_verif_name_of(id), (unsigned long long)run, dt, t->rank);
  }
}

/* The livelock verdict needs BOTH a large iteration count and a long wall time, so that neither a
   loaded machine (slow yields) nor a fast one can produce it from a live execution. */
void myth_verif_spin(int id) {
  vt_t * t = vt_get();
  t->hits[id]++;
  if (t->shared) { if (id != MYTH_VERIF_ID_SPINLOCK_SPIN && (t->hits[id] & 63) == 0) myth_verif_real_yield(); return; }
  if (id == MYTH_VERIF_ID_SPINLOCK_SPIN) {
    /* A spin-lock waiter does not yield (the real code does not either: a waiter that gives up its
       time slice after a few attempts can be starved for seconds on an oversubscribed machine by a
       party that re-takes the lock in a loop).  The run ends when the lock is obtained
       (SPINLOCK_WAITED) or at the next point. */
    if (t->lock_run == 0) { clock_gettime(CLOCK_MONOTONIC, &t->lock_t0); ring_add(t, id, 0); }
    t->lock_run++;
    if (t->lock_run > (1ULL << 28) && (t->lock_run & 0xfffff) == 0) spin_verdict(t, id, t->lock_run, &t->lock_t0);
    return;
  }
  /* sites that wait for another thread's progress: yield now and then */
  if (t->last_spin_id != id) {
    t->last_spin_id = id;
    t->spin_run = 0;
    clock_gettime(CLOCK_MONOTONIC, &t->spin_t0);
    ring_add(t, id, 0);
  }
  t->spin_run++;
  if ((t->spin_run & 63) == 0) {
    myth_verif_real_yield();
    if (t->spin_run > (1ULL << 22) && (t->spin_run & 0x3ff) == 0) spin_verdict(t, id, t->spin_run, &t->spin_t0);
  }
}

void myth_verif_nb_begin(const char * what) {
  vt_t * t = vt_get();
  if (t->shared) return;
  t->nb_depth++;
  t->nb_what = what;
}
void myth_verif_nb_end(void) {
  vt_t * t = vt_get();
  if (t->nb_depth > 0) t->nb_depth--;
}

void myth_verif_align(const char * fn, void * frame) {
  /* at function entry (after push %rbp; mov %rsp,%rbp) the frame address is
     16-byte aligned iff rsp was 16-byte aligned before the call insn */
  if (((uintptr_t)frame & 15) != 0) {
    char key[160];
    snprintf(key, sizeof(key), "align:%s", fn);
    myth_verif_violation(key, "frame address %p of %s is not 16-byte aligned", frame, fn);
  }
}

/* ------------------------------------------------------------------ ledger */

#define LEDGER_BITS 20
#define LEDGER_N (1u << LEDGER_BITS)
enum { K_DESC = 1, K_STACK = 2 };
typedef struct {
  _Atomic uintptr_t key;
  _Atomic int state;          /* 0 free, 1 in use */
  int kind;
  _Atomic uint32_t gen;
  uintptr_t base;
  size_t size;
  int filled;
  _Atomic uint64_t fin;       /* gen << 40 | stamp */
} lent_t;
static lent_t g_ledger[LEDGER_N];

#define PAGE_BITS 22
#define PAGE_N (1u << PAGE_BITS)
typedef struct { _Atomic uintptr_t page; _Atomic uintptr_t owner; } pent_t;
static pent_t g_pages[PAGE_N];

static _Atomic long g_fresh_desc, g_fresh_stack, g_fresh_stack_bytes;
static _Atomic long g_live_desc, g_live_stack;
static _Atomic long g_desc_acq, g_desc_rel, g_stack_acq, g_stack_rel;
static void (*g_desc_rel_cb)(void *);
static void (*g_desc_acq_cb)(void *);

static lent_t * ledger_find(uintptr_t key, int create, int * fresh) {
  uint32_t h = (uint32_t)(mix64(key) >> (64 - LEDGER_BITS));
  uint32_t i;
  for (i = 0; i < LEDGER_N; i++) {
    lent_t * e = &g_ledger[(h + i) & (LEDGER_N - 1)];
    uintptr_t k = atomic_load_explicit(&e->key, memory_order_acquire);
    if (k == key) { if (fresh) *fresh = 0; return e; }
    if (k == 0) {
      if (!create) return 0;
      uintptr_t z = 0;
      if (atomic_compare_exchange_strong(&e->key, &z, key)) { if (fresh) *fresh = 1; return e; }
      if (z == key) { if (fresh) *fresh = 0; return e; }
    }
  }
  return 0;
}

static pent_t * page_find(uintptr_t page, int create) {
  uint32_t h = (uint32_t)(mix64(page) >> (64 - PAGE_BITS));
  uint32_t i;
  for (i = 0; i < PAGE_N; i++) {
    pent_t * e = &g_pages[(h + i) & (PAGE_N - 1)];
    uintptr_t k = atomic_load_explicit(&e->page, memory_order_acquire);
    if (k == page) return e;
    if (k == 0) {
      if (!create) return 0;
      uintptr_t z = 0;
      if (atomic_compare_exchange_strong(&e->page, &z, page)) return e;
      if (z == page) return e;
    }
  }
  return 0;
}

void myth_verif_set_desc_rel_cb(void (*cb)(void *)) { g_desc_rel_cb = cb; }
void myth_verif_set_desc_acq_cb(void (*cb)(void *)) { g_desc_acq_cb = cb; }

void myth_verif_desc_acq(void * th, size_t sz, int fresh_hint) {
  (void)sz; (void)fresh_hint;
  int fresh = 0;
  lent_t * e = ledger_find((uintptr_t)th, 1, &fresh);
  if (!e) return;
  e->kind = K_DESC;
  if (fresh) atomic_fetch_add(&g_fresh_desc, 1);
  atomic_fetch_add(&e->gen, 1);
  int old = atomic_exchange(&e->state, 1);
  if (old != 0) {
    myth_verif_violation("ledger:desc-acquired-in-use",
                         "thread record %p handed out while the ledger says it is in use (gen %u)",
                         th, (unsigned)atomic_load(&e->gen));
  }
  atomic_fetch_add(&g_live_desc, 1);
  atomic_fetch_add(&g_desc_acq, 1);
  if (g_desc_acq_cb) g_desc_acq_cb(th);
}

void myth_verif_desc_rel(void * th) {
  lent_t * e = ledger_find((uintptr_t)th, 0, 0);
  if (!e) {
    myth_verif_violation("ledger:desc-released-unknown", "thread record %p released but never acquired", th);
  }
  if (g_desc_rel_cb) g_desc_rel_cb(th);
  int old = atomic_exchange(&e->state, 0);
  if (old != 1) {
    myth_verif_violation("ledger:desc-double-release",
                         "thread record %p released twice (gen %u)", th, (unsigned)atomic_load(&e->gen));
  }
  atomic_fetch_sub(&g_live_desc, 1);
  atomic_fetch_add(&g_desc_rel, 1);
}

void myth_verif_owner(int list_rank, const char * what) {
  /* records and stacks are kept on per-worker lists that are not synchronised: the list that receives a
     released resource must be the one of the worker executing the release */
  vt_t * t = vt_get();
  if (!t->shared && t->rank >= 0 && list_rank != t->rank) {
    myth_verif_violation("ledger:released-to-foreign-worker-list",
                         "a %s is being put on the unsynchronised free list of worker %d by code running on worker %d",
                         what, list_rank, t->rank);
  }
}

uint32_t myth_verif_desc_gen(void * th) {
  lent_t * e = ledger_find((uintptr_t)th, 0, 0);
  return e ? atomic_load(&e->gen) : 0;
}

uint64_t myth_verif_finished_stamp(void * th, uint32_t gen) {
  lent_t * e = ledger_find((uintptr_t)th, 0, 0);
  if (!e) return 0;
  uint64_t f = atomic_load(&e->fin);
  if ((uint32_t)(f >> 40) != (gen & 0xffffff)) return 0;
  return f & ((1ULL << 40) - 1);
}

#define FILL_BYTE 0xDB
#define FILL_TOP  (16 * 1024)

void myth_verif_stack_block(void * blk, size_t size) {
  /* a block of the size-class allocator is about to be used as a custom-size
     stack: the library now writes its size word, so the part poisoned when an
     earlier stack carved from the same block was released becomes addressable */
#if RT_ASAN
  __asan_unpoison_memory_region(blk, size);
#else
  (void)blk; (void)size;
#endif
}

void myth_verif_stack_acq(void * stk, size_t requested, size_t dflt) {
  /* stk points 16 bytes below the end of the block (free-list cell + size word) */
  size_t size = requested ? ((requested + 0xFFF) & ~(size_t)0xFFF) : dflt;
  uintptr_t end = (uintptr_t)stk + 16;
  uintptr_t base = end - size;
  int fresh = 0;
  lent_t * e = ledger_find((uintptr_t)stk, 1, &fresh);
  if (!e) return;
  e->kind = K_STACK;
  if (fresh) { atomic_fetch_add(&g_fresh_stack, 1); atomic_fetch_add(&g_fresh_stack_bytes, (long)size); }
  int old = atomic_exchange(&e->state, 1);
  if (old != 0) {
    myth_verif_violation("ledger:stack-acquired-in-use",
                         "stack %p (size %zu) handed out while the ledger says it is in use", stk, size);
  }
  atomic_fetch_add(&e->gen, 1);
  /* page ownership: every page of [base,end) must be unowned */
  uintptr_t p;
  for (p = base >> 12; p < (end + 0xFFF) >> 12; p++) {
    pent_t * pe = page_find(p, 1);
    if (!pe) break;
    uintptr_t z = 0;
    if (!atomic_compare_exchange_strong(&pe->owner, &z, (uintptr_t)stk)) {
      myth_verif_violation("ledger:stack-overlap",
                           "stack %p [%p,%p) overlaps live stack %p at page %p",
                           stk, (void *)base, (void *)end, (void *)z, (void *)(p << 12));
    }
  }
#if RT_ASAN
  __asan_unpoison_memory_region((void *)base, size);
#else
  if (cfg.stack_fill && !fresh && e->size == size && requested == 0 && e->filled) {
    /* was filled at release: the filled part must be intact */
    size_t n = size - 16 < FILL_TOP ? size - 16 : FILL_TOP;
    const unsigned char * q = (const unsigned char *)(end - 16 - n);
    size_t i;
    for (i = 0; i < n; i++) {
      if (q[i] != FILL_BYTE) {
        myth_verif_violation("ledger:stack-written-after-release",
                             "stack %p: byte at %p changed (0x%02x) between release and reuse",
                             stk, (void *)(q + i), q[i]);
      }
    }
  }
#endif
  e->base = base;
  e->size = size;
  atomic_fetch_add(&g_live_stack, 1);
  atomic_fetch_add(&g_stack_acq, 1);
}

void myth_verif_stack_rel(void * stk, void * frame) {
  lent_t * e = ledger_find((uintptr_t)stk, 0, 0);
  if (!e) {
    myth_verif_violation("ledger:stack-released-unknown", "stack %p released but never acquired", stk);
  }
  uintptr_t base = e->base, end = e->base + e->size;
  if ((uintptr_t)frame >= base && (uintptr_t)frame < end) {
    myth_verif_violation("ledger:stack-released-while-running-on-it",
                         "stack %p [%p,%p) released by code whose frame %p is on it",
                         stk, (void *)base, (void *)end, frame);
  }
  /* the size word next to the free-list cell must agree with what was acquired */
  {
    uintptr_t w = *(uintptr_t *)((char *)stk + 8);
    size_t expect = e->size;
    if (w != 0 && w != expect) {
      myth_verif_violation("ledger:stack-size-word",
                           "stack %p size word says %zu but %zu was acquired", stk, (size_t)w, expect);
    }
  }
  uintptr_t p;
  for (p = base >> 12; p < (end + 0xFFF) >> 12; p++) {
    pent_t * pe = page_find(p, 0);
    if (pe) {
      uintptr_t me = (uintptr_t)stk;
      atomic_compare_exchange_strong(&pe->owner, &me, 0);
    }
  }
  int old = atomic_exchange(&e->state, 0);
  if (old != 1) {
    myth_verif_violation("ledger:stack-double-release", "stack %p released twice", stk);
  }
#if RT_ASAN
  /* default-size stacks keep their free-list cell in the 16 bytes at the top; custom-size
     ones go back to the size-class allocator, whose free-list cell is the first word */
  if (*(uintptr_t *)((char *)stk + 8) == 0) __asan_poison_memory_region((void *)base, e->size - 16);
  else __asan_poison_memory_region((void *)(base + 16), e->size - 32);
#else
  e->filled = 0;
  if (cfg.stack_fill && *(uintptr_t *)((char *)stk + 8) == 0) {
    /* default-size stacks only: blocks of the size-class allocator are legitimately
       re-carved for other sizes, which writes a new size word inside the old extent */
    size_t n = e->size - 16 < FILL_TOP ? e->size - 16 : FILL_TOP;
    memset((void *)(end - 16 - n), FILL_BYTE, n);
    e->filled = 1;
  }
#endif
  atomic_fetch_sub(&g_live_stack, 1);
  atomic_fetch_add(&g_stack_rel, 1);
}

int myth_verif_stack_bounds(void * stk, void ** base, size_t * size) {
  lent_t * e = ledger_find((uintptr_t)stk, 0, 0);
  if (!e || e->kind != K_STACK) return 0;
  if (base) *base = (void *)e->base;
  if (size) *size = e->size;
  return 1;
}

int myth_verif_stack_containing(void * p, void ** base, size_t * size) {
  pent_t * pe = page_find((uintptr_t)p >> 12, 0);
  if (!pe) return 0;
  uintptr_t owner = atomic_load(&pe->owner);
  if (!owner) return 0;
  return myth_verif_stack_bounds((void *)owner, base, size);
}

long myth_verif_fresh_desc(void) { return atomic_load(&g_fresh_desc); }
long myth_verif_fresh_stack(void) { return atomic_load(&g_fresh_stack); }
long myth_verif_fresh_stack_bytes(void) { return atomic_load(&g_fresh_stack_bytes); }
long myth_verif_live_desc(void) { return atomic_load(&g_live_desc); }
long myth_verif_live_stack(void) { return atomic_load(&g_live_stack); }
long myth_verif_desc_acq_count(void) { return atomic_load(&g_desc_acq); }
long myth_verif_desc_rel_count(void) { return atomic_load(&g_desc_rel); }
long myth_verif_stack_acq_count(void) { return atomic_load(&g_stack_acq); }
long myth_verif_stack_rel_count(void) { return atomic_load(&g_stack_rel); }

/* ------------------------------------------------------------------ scheduler state / watchdog */

#define MAXW 1024
static struct wstate {
  _Atomic int registered;
  _Atomic int running;
  _Atomic uint64_t idle;
  char pad[64 - 16];
} g_ws[MAXW];
static _Atomic uint64_t g_found_work;
static _Atomic int g_lifecycle;      /* 0 none, 1 initialising, 2 running, 3 finalising */
static _Atomic int g_wd_started;
static _Atomic int g_wd_enabled = 1;
static _Atomic uint64_t g_fence_violations;

void myth_verif_set_deadlock_cb(void (*cb)(FILE *)) { g_deadlock_cb = cb; }
void myth_verif_watchdog_enable(int on) { atomic_store(&g_wd_enabled, on); }
uint64_t myth_verif_idle_iterations(void) {
  uint64_t s = 0; int i;
  for (i = 0; i < MAXW; i++) s += atomic_load_explicit(&g_ws[i].idle, memory_order_relaxed);
  return s;
}

static void * watchdog_main(void * arg) {
  (void)arg;
  uint64_t last_idle[MAXW];
  uint64_t last_found = 0;
  int streak = 0;
  memset(last_idle, 0, sizeof(last_idle));
  for (;;) {
    myth_verif_real_usleep(25000);
    if (atomic_load(&g_violated)) return 0;
    if (!atomic_load(&g_wd_enabled) || atomic_load(&g_lifecycle) != 2) { streak = 0; continue; }
    int n = 0, ok = 1, i;
    uint64_t found = atomic_load(&g_found_work);
    for (i = 0; i < MAXW; i++) {
      if (!atomic_load(&g_ws[i].registered)) continue;
      n++;
      uint64_t idl = atomic_load(&g_ws[i].idle);
      if (atomic_load(&g_ws[i].running)) ok = 0;
      if (idl < last_idle[i] + 2) ok = 0;
      last_idle[i] = idl;
    }
    if (found != last_found) ok = 0;
    last_found = found;
    /* re-check running flags and found counter after reading the idle counters */
    if (ok) {
      for (i = 0; i < MAXW; i++)
        if (atomic_load(&g_ws[i].registered) && atomic_load(&g_ws[i].running)) ok = 0;
      if (atomic_load(&g_found_work) != found) ok = 0;
    }
    if (n == 0 || !ok) { streak = 0; continue; }
    streak++;
    if (streak >= 4 && atomic_load(&g_lifecycle) == 2) {
      if (g_deadlock_cb) g_deadlock_cb(stderr);
      myth_verif_violation("deadlock",
                           "all %d workers idle over %d consecutive samples: every worker completed >= 2 "
                           "scheduler iterations per sample finding no work, no thread was resumed, "
                           "and the program has not finished", n, streak);
    }
  }
  return 0;
}

static void watchdog_start(void) {
  int z = 0;
  if (!cfg.watchdog) return;
  if (!atomic_compare_exchange_strong(&g_wd_started, &z, 1)) return;
  pthread_t th;
  pthread_attr_t a;
  pthread_attr_init(&a);
  pthread_attr_setdetachstate(&a, PTHREAD_CREATE_DETACHED);
  if (real_pthread_create) real_pthread_create(&th, &a, watchdog_main, 0);
  else pthread_create(&th, &a, watchdog_main, 0);
}

void myth_verif_sched(int what, int rank, void * th) {
  (void)th;
  if (rank < 0 || rank >= MAXW) return;
  switch (what) {
  case MYTH_VERIF_SCHED_RUN:
    atomic_store(&g_ws[rank].running, 1);
    atomic_fetch_add(&g_found_work, 1);
    break;
  case MYTH_VERIF_SCHED_BACK:
    atomic_store(&g_ws[rank].running, 0);
    break;
  case MYTH_VERIF_SCHED_IDLE:
    atomic_store_explicit(&g_ws[rank].running, 0, memory_order_relaxed);
    atomic_fetch_add_explicit(&g_ws[rank].idle, 1, memory_order_relaxed);
    break;
  }
}

unsigned int myth_verif_seed(int rank, unsigned int dflt) {
  vt_t * t = vt_get();
  t->rank = rank;
  if (rank >= 0 && rank < MAXW) {
    atomic_store(&g_ws[rank].running, 1);   /* not idle until its scheduler says so */
    atomic_store(&g_ws[rank].registered, 1);
  }
  watchdog_start();
  if (!cfg.have_seed) return dflt;
  t->rng = mix64(cfg.seed ^ (0x5851f42dULL * (uint64_t)(rank + 1))) | 1;
  unsigned int s = (unsigned int)mix64(cfg.seed + 977 * (uint64_t)(rank + 1));
  return s ? s : 1;
}

/* ------------------------------------------------------------------ events */

void myth_verif_ev(int kind, const void * a, long b) {
  vt_t * t = vt_get();
  if (t->shared && (kind == MYTH_VERIF_EV_FENCE_RW || kind == MYTH_VERIF_EV_Q_STORE_TOP || kind == MYTH_VERIF_EV_Q_STORE_BASE ||
                    kind == MYTH_VERIF_EV_Q_LOAD_BASE || kind == MYTH_VERIF_EV_Q_LOAD_TOP)) return;   /* the trace rule needs a per-thread trace */
  switch (kind) {
  case MYTH_VERIF_EV_FENCE_RW:
    t->pending_q = 0;
    return;
  case MYTH_VERIF_EV_Q_STORE_TOP:
  case MYTH_VERIF_EV_Q_STORE_BASE:
    t->pending_q = a;
    t->pending_kind = kind;
    return;
  case MYTH_VERIF_EV_Q_LOAD_BASE:
  case MYTH_VERIF_EV_Q_LOAD_TOP:
    if (cfg.trace_rule && t->pending_q == a &&
        ((kind == MYTH_VERIF_EV_Q_LOAD_BASE && t->pending_kind == MYTH_VERIF_EV_Q_STORE_TOP) ||
         (kind == MYTH_VERIF_EV_Q_LOAD_TOP && t->pending_kind == MYTH_VERIF_EV_Q_STORE_BASE))) {
      myth_verif_violation(kind == MYTH_VERIF_EV_Q_LOAD_BASE ? "fence-order:pop" : "fence-order:take",
                           "run queue %p: %s index loaded after the %s index was stored with no full "
                           "fence in between on this thread (store->load handshake broken)",
                           a, kind == MYTH_VERIF_EV_Q_LOAD_BASE ? "base" : "top",
                           kind == MYTH_VERIF_EV_Q_LOAD_BASE ? "top" : "base");
    }
    return;
  case MYTH_VERIF_EV_FIN_PRE: {
    lent_t * e = ledger_find((uintptr_t)a, 0, 0);
    t->fin_pre_th = (void *)a;
    t->fin_pre_gen = e ? atomic_load(&e->gen) : 0;
    ring_add(t, -kind, b);
    return;
  }
  case MYTH_VERIF_EV_FINISHED: {
    if (t->fin_pre_th == a) {
      lent_t * e = ledger_find((uintptr_t)a, 0, 0);
      if (e) {
        uint64_t st = myth_verif_stamp();
        atomic_store(&e->fin, ((uint64_t)(t->fin_pre_gen & 0xffffff) << 40) | (st & ((1ULL << 40) - 1)));
      }
    }
    t->fin_pre_th = 0;
    return;
  }
  case MYTH_VERIF_EV_INIT_BEGIN:
    atomic_store(&g_lifecycle, 1);
    return;
  case MYTH_VERIF_EV_INIT_END:
    atomic_store(&g_lifecycle, 2);
    return;
  case MYTH_VERIF_EV_FINI_BEGIN:
    atomic_store(&g_lifecycle, 3);
    return;
  case MYTH_VERIF_EV_FINI_END: {
    int i;
    for (i = 0; i < MAXW; i++) atomic_store(&g_ws[i].registered, 0);
    atomic_store(&g_lifecycle, 0);
    return;
  }
  case MYTH_VERIF_EV_WORKER_EXIT:
    if (b >= 0 && b < MAXW) atomic_store(&g_ws[b].registered, 0);
    return;
  default:
    ring_add(t, -kind, b);
    return;
  }
}

/* ------------------------------------------------------------------ virtual clock */

static struct {
  _Atomic int on;
  _Atomic int lock;
  long sec, nsec, step_sec, step_nsec;
  _Atomic uint64_t reads;
} g_vc;

static void vc_lock(void) { int z = 0; while (!atomic_compare_exchange_weak(&g_vc.lock, &z, 1)) z = 0; }
static void vc_unlock(void) { atomic_store(&g_vc.lock, 0); }

void myth_verif_vclock_enable2(long sec, long nsec, long step_sec, long step_nsec) {
  vc_lock();
  g_vc.sec = sec; g_vc.nsec = nsec; g_vc.step_sec = step_sec; g_vc.step_nsec = step_nsec;
  vc_unlock();
  atomic_store(&g_vc.on, 1);
}
void myth_verif_vclock_enable(long sec, long nsec, long step_ns) {
  myth_verif_vclock_enable2(sec, nsec, step_ns / 1000000000L, step_ns % 1000000000L);
}
void myth_verif_vclock_disable(void) { atomic_store(&g_vc.on, 0); }
void myth_verif_vclock_set_step(long step_ns) {
  vc_lock(); g_vc.step_sec = step_ns / 1000000000L; g_vc.step_nsec = step_ns % 1000000000L; vc_unlock();
}
void myth_verif_vclock_peek(struct timespec * ts) {
  vc_lock(); ts->tv_sec = g_vc.sec; ts->tv_nsec = g_vc.nsec; vc_unlock();
}
uint64_t myth_verif_vclock_reads(void) { return atomic_load(&g_vc.reads); }

int myth_verif_clock(struct timespec * ts) {
  if (!atomic_load_explicit(&g_vc.on, memory_order_relaxed)) return 0;
  vc_lock();
  /* advance first, then report: consecutive readings are strictly increasing when step > 0 */
  long ns = g_vc.nsec + g_vc.step_nsec;
  g_vc.sec += g_vc.step_sec + ns / 1000000000L;
  g_vc.nsec = ns % 1000000000L;
  ts->tv_sec = g_vc.sec;
  ts->tv_nsec = g_vc.nsec;
  vc_unlock();
  atomic_fetch_add(&g_vc.reads, 1);
  return 1;
}

/* ------------------------------------------------------------------ summary */

uint64_t myth_verif_hits_id(int id) {
  if (id < 0 || id >= MYTH_VERIF_N_IDS) return 0;
  uint64_t s = 0;
  int n = atomic_load(&g_n_vt), i;
  if (n > MAX_VT) n = MAX_VT;
  for (i = 0; i < n; i++) s += g_vt[i].hits[id];
  return s;
}
uint64_t myth_verif_hits(const char * name) { return myth_verif_hits_id(myth_verif_id_of(name)); }

int myth_verif_summary_json(char * buf, size_t n) {
  size_t o = 0;
  int i, first = 1;
#define AP(...) do { if (o < n) { int r_ = snprintf(buf + o, n - o, __VA_ARGS__); if (r_ > 0) o += (size_t)r_; } } while (0)
  AP("{\"hits\":{");
  for (i = 0; i < MYTH_VERIF_N_IDS; i++) {
    uint64_t h = myth_verif_hits_id(i);
    if (!h) continue;
    AP("%s\"%s\":%llu", first ? "" : ",", g_names[i], (unsigned long long)h);
    first = 0;
  }
  AP("}");
  if (cfg.pairs) {
    int a, b, cnt = 0;
    for (a = 0; a < MYTH_VERIF_N_IDS; a++) for (b = 0; b < MYTH_VERIF_N_IDS; b++) if (g_pairs[a][b]) cnt++;
    AP(",\"pairs\":%d,\"pair_list\":[", cnt);
    int f2 = 1, shown = 0;
    for (a = 0; a < MYTH_VERIF_N_IDS && shown < 400; a++) for (b = 0; b < MYTH_VERIF_N_IDS && shown < 400; b++) if (g_pairs[a][b]) {
      AP("%s[%d,%d]", f2 ? "" : ",", a, b); f2 = 0; shown++;
    }
    AP("]");
  }
  AP(",\"ledger\":{\"desc_acq\":%ld,\"desc_rel\":%ld,\"stack_acq\":%ld,\"stack_rel\":%ld,"
     "\"fresh_desc\":%ld,\"fresh_stack\":%ld,\"live_desc\":%ld,\"live_stack\":%ld}",
     myth_verif_desc_acq_count(), myth_verif_desc_rel_count(), myth_verif_stack_acq_count(),
     myth_verif_stack_rel_count(), myth_verif_fresh_desc(), myth_verif_fresh_stack(),
     myth_verif_live_desc(), myth_verif_live_stack());
  AP(",\"idle_iterations\":%llu,\"found_work\":%llu,\"slept_us\":%ld,\"os_threads\":%d,\"vclock_reads\":%llu}",
     (unsigned long long)myth_verif_idle_iterations(), (unsigned long long)atomic_load(&g_found_work),
     atomic_load(&g_slept_us), atomic_load(&g_n_vt), (unsigned long long)atomic_load(&g_vc.reads));
#undef AP
  if (o >= n) { buf[n - 1] = 0; return -1; }
  return (int)o;
}

static void __attribute__((destructor)) rt_dtor(void) {
  const char * p = getenv("MYTH_VERIF_RTOUT");
  if (!p || !*p) return;
  static char buf[32768];
  if (myth_verif_summary_json(buf, sizeof(buf)) < 0) return;
  FILE * f = fopen(p, "a");
  if (!f) return;
  fprintf(f, "VRT %s\n", buf);
  fclose(f);
}

/* ------------------------------------------------------------------ DAG Recorder clock hook */
static _Atomic unsigned long long g_dr_vclock;       /* 0 = real time stamp counter */
static _Atomic unsigned long long g_dr_vclock_reads;
void myth_verif_dr_vclock_set(unsigned long long v) { atomic_store(&g_dr_vclock, v); }
unsigned long long myth_verif_dr_vclock_reads(void) { return atomic_load(&g_dr_vclock_reads); }
unsigned long long myth_verif_dr_clock(unsigned long long real_tsc) {
  unsigned long long v = atomic_load_explicit(&g_dr_vclock, memory_order_relaxed);
  if (!v) return real_tsc;
  atomic_fetch_add_explicit(&g_dr_vclock_reads, 1, memory_order_relaxed);
  return v;
}
