#!/usr/bin/env python3
"""regenerates /verif/MANIFEST.json from the table below (run after adding a check)"""
import json, os, subprocess

VERIF = os.path.dirname(os.path.dirname(os.path.abspath(__file__)))

COMMON_NOTE = ("Trusted base: gcc 12, the hook runtime rt/myth_verif_rt.c and the harness oracle; the hooks "
               "(guard MYTH_VERIF) only add calls. Verdict is 'held on the executions observed' - schedules are "
               "sampled by seeded delay injection at hook points plus OS preemption on 16 cores, not enumerated.")

CHECKS = {
    "C01": dict(
        category="exploration",
        technique="runtime monitoring: exactly-once counters + stamped join/finish log over seeded random fork-join programs, delay injection at hook points, ASan/UBSan build, logical deadlock watchdog",
        text=("Seeded random spawn trees (all creation modes incl. attribute objects on painted memory and NULL id, both "
              "creation orders, custom stacks, return/myth_exit, four join orders) run on 1-16(32) workers under calm/noise/"
              "targeted delay profiles on -O0, -O2 and ASan+UBSan builds; every thread carries a tag and the oracle checks "
              "run-count==1, argument identity, FN_RET stamp < JOIN_RET stamp, value equality and every byte of a "
              "child-written block at each join; lost threads/wake-ups are decided by the logical deadlock rule. "
              "Exploration is the right level: the property quantifies over schedules, which an oracle over many "
              "diversified executions samples and unit tests do not."),
        design_ref="DESIGN.md section 5 C01, sections 2-4",
    ),
}

def _sync(title, oracle, ref):
    return dict(
        category="exploration",
        technique="runtime monitoring: " + oracle + "; seeded delay injection at hook points (window + amplifier), -O0/-O2/ASan builds, logical deadlock + livelock watchdog",
        text=(title + " Exploration is the right level: the property quantifies over interleavings; the oracle runs over "
              "thousands of diversified executions (worker counts 1-16(32), calm/noise/targeted profiles) and the evidence "
              "reports which race windows and rare branches were actually entered."),
        design_ref=ref)


CHECKS.update({
    "C18": dict(
        category="exploration",
        technique="runtime monitoring: hook-fed independent totals (interval hooks of dr_options + the generator's own dependency structure) compared with the recorder's root node and its .stat report over a grid of contraction settings; multi-worker simulator (serial / OS thread per task / virtual time) driving the public dr_*__ entry points; ASan/UBSan",
        text=("Generated well-nested programs (task/section grammar with 'other' intervals, depth<=6, fan-out<=6, 1-16 simulated workers, migrations at every runtime call, busy waits crossing the thresholds; a third of the programs with one OS thread per task and worker tokens, a third with per-task virtual clocks fed through the guarded clock hook so that intervals of different tasks overlap) are recorded under "
              "up to ten contraction settings each; work, critical path, interval counts and edge totals by kind reported by the recorder (root node and .stat) must equal the totals computed from the complete interval "
              "sequence delivered to the user hooks, T_inf<=T_1, and counts must agree across settings of the same program."),
        design_ref="DESIGN.md section 5 C18",
    ),
    "C19": dict(
        category="exploration",
        technique="runtime monitoring: independent file-format validator + counting callback on the library's chronological replay + byte-level round trip + conversion by the real dag2any --shrink, on every DAG produced by the C18 grid; ASan/UBSan",
        text=("Every dumped and converted .dag is parsed independently (size, offsets, tree reaching every node, edges grouped by source with consistent ranges, string table), replayed (each leaf starts and ends exactly once, "
              "nothing running or ready at the end), read back and re-written byte-identically, shrunk by dag2any under several conversion settings with totals preserved; 1-300 distinct source-file names."),
        design_ref="DESIGN.md section 5 C19",
    ),
    "C16": dict(
        category="translation_validation",
        technique="differential execution: a seeded determinate pthread program interpreter run natively and redirected by ld --wrap and by LD_PRELOAD (hooked library builds, 1-16 workers, delay profiles, ASan); stdout and exit status compared",
        text=("Each generated program (spawn trees with attribute objects on painted memory, detach, pthread_exit, self/equal; counters under dynamically and statically initialised mutexes whose first use is raced "
              "by 2-32 threads; condition-variable bounded buffer; barrier phases with serial count, spin lock taken by lock and by trylock loops, once; 24 keys with destructors; a determinate single-threaded call sequence whose return codes are printed) is run natively twice (determinacy check) and through both redirection "
              "mechanisms; outputs must be identical, a crash/deadlock/hang on the wrapped side is a disagreement. Translation validation is the right level: the property is equality of observable results between two "
              "implementations of the same API for every program of a class, sampled over generated programs and schedules."),
        design_ref="DESIGN.md section 5 C16",
        note=COMMON_NOTE + " The native run of the same program is the reference (trusted: glibc's pthreads).",
    ),
    "C17": dict(
        category="exploration",
        technique="runtime monitoring: sequential reference model + per-item exactly-once counters + guard bytes / exactly sized heap blocks under ASan for the C helpers; per-task slots and per-index counters vs the sequential loop for mtbb, with a live-thread watchdog for non-terminating recursion",
        text=("Hundreds of generated calls per process of create_join_many/various over n in {0..10000}, all stride combinations, NULL/non-NULL ids/results/attrs, per-item attributes, function stride 0; "
              "every slot is compared with the sequential loop, guard bytes and untouched slots must be intact. mtbb::task_group with 0-100 tasks per wait, 1-400 byte captures and nesting; "
              "mtbb::parallel_for in its four forms over small (first,last,step,grain) incl. empty, reversed and single-element ranges; per-index counters must equal the sequential loop's."),
        design_ref="DESIGN.md section 5 C17",
    ),
    "C12": dict(
        category="exploration",
        technique="runtime monitoring: ownership ledger for records and stacks fed by hooks at every acquisition/release (CAS-updated, page-granular overlap map, releasing-frame check, size-word check), ASan poison / fill pattern on released stacks, whole-stack canaries, release-legality callback; delay injection in the finish/join/detach windows",
        text=("Every record/stack acquisition and release in the process goes through the ledger: acquire-while-in-use, double release, overlap of live stacks (any size, size-class rounding), "
              "release by code still running on that stack, writes between release and reuse are immediate violations. The workload mixes all reaping kinds, stack sizes from 4 to 2048 pages "
              "incl. non-page-multiples, canaries up to 2 MiB re-verified after every resumption, thousands of simultaneously live threads joined late with exit values checked, on 1-16 workers and three builds."),
        design_ref="DESIGN.md section 5 C12",
    ),
    "C13": dict(
        category="exploration",
        technique="runtime monitoring: ledger at quiescence + release callback (exactly one release per reaped thread, only after finish and a reaping request), generation-checked FINISHED hook for the tryjoin rule, real-clock check for timedjoin, fresh-allocation bound over create/reap cycles on one worker",
        text=("All six reaping kinds (join, tryjoin, timedjoin with past and far deadlines, detach before/after finish, detach-state attribute) in random windows; each reaped thread's record must be "
              "released exactly once and only after its function returned and a reaping operation was requested; the ledger must be empty at quiescence; tryjoin returns 0 only after the function returned "
              "and never EBUSY once the finished state was published before the call; timedjoin never gives up before its deadline; tens of thousands (thorough: 3e5) create/reap cycles per kind on one "
              "worker allocate at most 8 fresh records/stacks."),
        design_ref="DESIGN.md section 5 C13",
    ),
    "C15": dict(
        category="exploration",
        technique="runtime monitoring: one process per configuration/history with counters of workers, OS threads (/proc/self/task) and tids; generated malformed environments with exit-status/effective-value oracle; reference-parser differential on the CPU-list parser under ASan/UBSan",
        text=("Histories of init/work/fini cycles with worker counts 1..64 requested three ways, first-use races of up to 9 OS threads (exactly one initialisation), OS-thread counts before/after init and after fini, "
              "worker indices within range, finalisation from a migrated main thread (watched: it must return), a third of the histories with worker binding and a different MYTH_CPU_LIST every cycle (affinity masks vs docs/bind.txt); each of 31 public entry points as the very first call into the library (implicit initialisation, exactly one); ~260 (thorough 3000) generated environments with malformed values for every configuration variable must start, run a fork-join, "
              "finalise and report the documented fallback values; the CPU-list parser is compared with an independent reference parser on 8e4 (thorough 8e6) grammar-generated and mutated strings."),
        design_ref="DESIGN.md section 5 C15",
    ),
    "C20": dict(
        category="exploration",
        technique="runtime monitoring: real-clock inequalities around every sleep / timed call + a virtual clock owned by the harness (hr_gettime hook) checking the time-out rule reading by reading on one worker",
        text=("Real clock: sleeps return 0 no earlier than requested, malformed durations give EINVAL, a sibling progresses during a sleep (one worker), time-outs imply the clock passed the deadline, no time-out when the holder "
              "released before the call. Virtual clock: thousands of deterministic cases (carries, nsec 0/999999999, deadline exactly equal / already past / k steps away +-1 ns, durations up to 2^40 s) check that a time-out is returned "
              "at the first reading strictly after the deadline, never before, and not at all when the mutex was released / the target finished before an attempt that preceded the deadline."),
        design_ref="DESIGN.md section 5 C20",
    ),
    "C10": dict(
        category="exploration",
        technique="runtime monitoring: reference-model monitors (dictionary for the per-thread store, set model + liveness marks for the key allocator, free-list walk at quiescence) on the real code, targeted delays in the allocator's CAS windows, ASan/UBSan, library-level migration probes",
        text=("Unit harness includes src/myth_tls_func.h: random set/get over all 1024 indices in six subset shapes (every lazily allocated level, node-pool overflow into malloc, "
              "out-of-range keys) against a dictionary; create/delete sequences against a set model up to exhaustion at 1024; 2-8 OS threads creating/deleting concurrently with "
              "an atomic liveness mark per key and a structural walk of the free list at quiescence. Library level: threads store tag-derived values under key subsets of "
              "1024 live keys, force a migration with steal_first yields and re-read; fresh threads, never-set keys and same-leaf neighbours must read NULL."),
        design_ref="DESIGN.md section 5 C10",
    ),
    "C11": dict(
        category="exploration",
        technique="runtime monitoring: per-(thread,key) destructor call log from 1024 distinct trampolines compared with a model after every batch of thread terminations (return / myth_exit / cancel), ASan for reads outside the key table",
        text=("All 1024 keys live, a random share with destructors (one trampoline per index so the key identity of every call is known); threads store values that encode (thread, key) "
              "under eight subset shapes including those that leave earlier tree branches empty and partially populated key tables, overwrite/clear some, and end in all three ways; "
              "calls must equal the model exactly (1 iff live key with destructor and non-NULL value), a value decoding to another key or a key without destructor is an immediate violation."),
        design_ref="DESIGN.md section 5 C11",
    ),
    "C03": dict(
        category="exploration",
        technique="runtime monitoring: pure-assembly register probe around every kind of switching call + stack pattern arrays + rsp alignment assertions at thread entry and in every switch callback, -O0 and -O2 builds, delay injection",
        text=("Groups of probe threads (child-first and parent-first entry) run a common random sequence of 19 switcher kinds covering every "
              "swap/set-context site; each switching call is issued from an assembly routine that loads rbx,rbp,r12-r15 with seed-derived patterns and "
              "compares them on return; every thread keeps a 1-48 KiB pattern array on its stack; per switcher the evidence counts probes that came "
              "back on another worker. Alignment: assembly entry stubs test rsp, MYTH_VERIF_ALIGN checks every MYTH_CTX_CALLBACK and myth_entry_point. "
              "Exploration is the right level: the property is about what the compiler and the asm keep across a switch for every pair of "
              "threads and migration; it is sampled on -O0 and -O2, not proved (red-zone skip: see level_note)."),
        design_ref="DESIGN.md section 5 C03, section 8.1",
        note=COMMON_NOTE + " The 128-byte red-zone skip and MXCSR/x87 state are outside what this check can decide.",
    ),
    "C02": dict(
        category="exploration",
        technique="runtime monitoring: ticket conservation + CAS-checked exactly-once hand-over on the real queue code with tiny capacities (unit, real OS threads), op-by-op reference deque, online fence-order trace rule, whole-library exactly-once with custom steal function; delay injection between every pair of shared accesses",
        text=("(a) unit harness drives src/myth_wsqueue_func.h and the wsapi take/peek/pass with capacities 4-64 so both storage boundaries, re-centring "
              "in both directions and the one/two-entries-left paths are hit within microseconds: sequential op sequences against a reference deque, then an "
              "owner against 1-6 thief OS threads over a ticket pool (duplicate obtain = immediate violation, conservation at quiescence, declined steals leave the candidate). "
              "(b) an online trace rule checks that the owner's/thief's index store is followed by a full fence before the counterpart index is loaded. "
              "(c) the fork-join generator with all five yield options and a custom steal function (take, take+decline, peek, pass to a third worker) on a 256-entry queue checks exactly-once per tag and termination. "
              "Exploration is the right level; behaviour under a weakened fence *instruction* is out of reach on an x86 host (DESIGN 8.1)."),
        design_ref="DESIGN.md section 5 C02, section 8.1",
    ),
    "C04": _sync("Random lock/trylock/timedlock mixes (deadlines one hour and 0-150 us away) by 2-200 threads on 1-4 mutexes with an occupancy witness and a plain counter in every critical section; "
                 "failed trylocks are checked offline against the totally ordered acquisition history (a failure is a violation only if the mutex was provably free throughout the call); "
                 "trylock is bracketed by the non-blocking check; a progress program shows a blocked locker gives its worker away.",
                 "occupancy witness + offline interval/sequence rule over stamped lock/trylock/unlock history + non-blocking bracket", "DESIGN.md section 5 C04"),
    "C05": _sync("Bounded buffer (signals under the mutex, after the unlock, and state-less signals without it), turnstile, broadcast gate, ping-pong and token-release programs whose completion and counters are determinate only if no wake-up is lost; "
                 "every wait return checks the holder witness and that a signal/broadcast was issued after the wait began (no banked or spurious wake-up).",
                 "determinate producer/consumer patterns with unique ids, holder witness, signal-generation rule", "DESIGN.md section 5 C05"),
    "C06": _sync("N in {1..200, 1200, 3000} participants over thousands of consecutive rounds with stragglers and racers; each participant counts its arrival before the wait and checks arrived[k]==N, arrived[k+1]<=N and exactly one serial indicator per round.",
                 "per-round arrival counters and serial-indicator count checked at every return", "DESIGN.md section 5 C06"),
    "C07": _sync("Join counters with N from 0 to 65536 (field-split probes up to 2^31-1), 0-64 waiters arriving before/between/after the decrements, and random DAG programs whose nodes assert their predecessors are done; "
                 "decs_started>=N at every wait return, waits issued after the last dec returned are bracketed by the non-blocking check.",
                 "decs-started counter at wait return, DAG predecessor assertions, non-blocking bracket", "DESIGN.md section 5 C07"),
    "C08": _sync("Thousands of two-way rendezvous per thread pair over the same two variables following the documented announce/clear protocol, single-slot SPSC channels with numbered items, and rotation programs in which 2-6 threads take turns as the waiter of one variable (including very late waiters with bystander threads); "
                 "each wait return is matched with the stamp and sequence number of the signal that must have caused it and the per-side resume count.",
                 "sequence-numbered rendezvous log (one resume per rendezvous, after its signal)", "DESIGN.md section 5 C08"),
    "C09": _sync("Single-slot mailboxes with 1-8 producers, 1-8 consumers and plain lock/unlock users, and multi-item mailboxes (several sleepers per status, marks that leave the status unchanged); status and exclusivity asserted under the lock; consumed multiset == produced multiset.",
                 "unique item ids (exactly-once), status/occupancy assertions under the lock", "DESIGN.md section 5 C09"),
    "C14": _sync("1-64 once-controls with initialisers that yield, block on a mutex, create and join threads, called by 2-500 concurrent threads; every caller checks done==1 and ran==1 right after myth_once returns; later calls are bracketed by the non-blocking check.",
                 "ran/done counters checked at every return", "DESIGN.md section 5 C14"),
})

PENDING_REASON = "check not built yet (construction in progress; see DESIGN.md section 9)"


def main():
    props = [json.loads(l)["id"] for l in open(os.path.join(VERIF, "properties.jsonl"))]
    try:
        commits = subprocess.run(["git", "-C", "/repo", "log", "--format=%h %s", "--grep=verif hooks"],
                                 capture_output=True, text=True).stdout.strip().splitlines()
        commits = [c.split()[0] for c in commits][::-1]
    except Exception:
        commits = []
    m = {
        "version": 1,
        "setup_cmd": "python3 -c 'import json,sys; json.load(open(\"MANIFEST.json\"))' && gcc --version >/dev/null",
        "hooks": {
            "guard": "MYTH_VERIF",
            "enable": "each check compiles /repo/src/*.c itself with gcc -DMYTH_VERIF (plus variant flags) and links /verif/rt/myth_verif_rt.c; nothing is taken from the autotools objects",
            "baseline_off_cmd": "make -C /repo -j8 check",
            "source_commits": commits,
            "add_only": True,
        },
        "engines": [
            {"name": "vcheck", "path": "/verif/vcheck", "serves_properties": sorted(CHECKS),
             "kind_free_text": "python driver: builds hooked library variants (h0/h2/asan/ld/dl) from /repo, fans out seeded harness runs, applies oracles and known findings, writes evidence"},
            {"name": "hook runtime", "path": "/verif/rt/myth_verif_rt.c", "serves_properties": sorted(CHECKS),
             "kind_free_text": "schedule points with seeded delay injection, coverage counters, ownership ledger for records/stacks with ASan poisoning, logical deadlock watchdog, fence-order trace rule, virtual clock"},
        ],
        "checks": [],
        "not_applicable": [],
        "notes": "All checks are runtime monitors over executions of the real code; see DESIGN.md.",
    }
    for p in props:
        if p in CHECKS:
            c = CHECKS[p]
            m["checks"].append({
                "property_id": p,
                "quick_cmd": "./vcheck %s quick" % p,
                "thorough_cmd": "./vcheck %s thorough" % p,
                "evidence_file": "/verif/evidence/%s.json" % p,
                "replay_cmd_template": "python3 -c \"import json,os,subprocess,sys; r=json.load(open('{path}')); e=dict(os.environ); e.update({k:str(v) for k,v in r.get('env',{}).items()}); sys.exit(subprocess.call(r['cmd'],env=e))\"  # rebuild first with ./vcheck %s quick --keep" % p,
                "engine": "vcheck",
                "level_claimed": {"category": c["category"], "text": c["text"], "design_ref": c["design_ref"]},
                "level_note": c.get("note", COMMON_NOTE),
                "technique": c["technique"],
            })
        else:
            m["not_applicable"].append({"property_id": p, "reason": PENDING_REASON})
    json.dump(m, open(os.path.join(VERIF, "MANIFEST.json"), "w"), indent=1)
    print("MANIFEST.json: %d checks, %d not_applicable" % (len(m["checks"]), len(m["not_applicable"])))


if __name__ == "__main__":
    main()
