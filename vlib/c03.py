"""C03 -- a thread's registers and stack survive every context switch and migration"""
from . import generic, core

KINDS = ["yield_half_half", "yield_local_only", "yield_local_first", "yield_steal_only", "yield_steal_first",
         "create_child_first+join", "create_parent_first+join", "join_finished_target", "mutex_lock_contended",
         "cond_wait_ring", "barrier_wait", "join_counter_wait", "uncond_wait/signal", "felock_handoff", "usleep",
         "tryjoin_poll", "timedjoin", "once", "timedlock"]

SPEC = {
    "tag": "ctx", "src": "h_ctx.c",
    "window": ["YIELD_BEFORE_SWITCH", "JOIN_BEFORE_SWITCH", "BQ_BEFORE_SWITCH", "BS_BEFORE_SWITCH", "UNC_BEFORE_SWITCH",
               "CREATE1_ENTER", "EP_CB_BEFORE_STACKREL", "BQ_CB_BEFORE_ENQ", "YIELD_CB_BEFORE_PUT"],
    "ampl": ["YIELD_CB_AFTER_PUT", "CREATE_AFTER_PARENT_PUSH", "BQ_BEFORE_POP", "FIN_BEFORE_POP", "WAKE1_AFTER_PUSH",
             "WAKEANY_AFTER_PUSH", "WAKENS_AFTER_PUSH", "WAKENQ_AFTER_PUSH", "UNC_SIG_AFTER_PUSH", "JOIN_BEFORE_POP"],
    "required": ["SCHED_STEAL_OK", "JOIN_BLOCK_NEXT", "JOIN_BLOCK_SCHED", "FIN_SAW_WAITER", "FIN_NEXT", "FIN_SCHED",
                 "BS_CB_BEFORE_PUSH", "UNC_CB_BEFORE_PUB", "CREATE_PF_AFTER_PUSH"],
    "nontrivial_ids": ["SCHED_STEAL_OK"],
    "n_quick": 90, "n_thorough": 2000,
    "variants": {"h0": 45, "h2": 55},
    "profile_weights": [35, 40, 25],
    "pf_prob": 0.0,
    "rule": ("each evaluation is one process: groups of probe threads (odd ones first entered through the parent-first "
             "path, entry points are assembly stubs that test rsp) execute a common random sequence of 19 switcher kinds "
             "(every myth_swap_context_withcall / myth_set_context_withcall site: 5 yield options, create child-/parent-"
             "first + join, join on a finished target, contended mutex, cond wait, barrier, join counter, uncond, felock, "
             "usleep, tryjoin, timedjoin, once, timedlock); each switching call is made from a pure-assembly routine that "
             "loads rbx,rbp,r12-r15 with patterns and compares them on return; each thread keeps a 1-48 KiB pattern array "
             "on its stack; MYTH_VERIF_ALIGN checks every switch callback; 40% of the runs use a default stack size "
             "(MYTH_DEF_STKSIZE) that is not a multiple of 16, half use per-thread sizes 256 KiB + {8,24,4,1}, and a quarter of "
             "the probe threads are created with a NULL attribute. Non-trivial = >=1 successful steal (so probes "
             "came back on another worker); distinct = distinct (hook ids that fired, worker count, profile kind, shape)."),
    "assume": ["the 128-byte red-zone skip protects the library's own frame; whether removing it corrupts anything depends on "
               "gcc's frame layout: sampled by the -O2 build, not decided (DESIGN 8.1)",
               "MXCSR / x87 control words are not in the property's register list and are not checked"],
}


def env_extra(r, tier, v, nw):
    # default stack sizes that are not multiples of 16 (taken verbatim by the library); the probe threads keep
    # up to 48 KiB on their stacks, so the sizes stay >= 256 KiB
    if r.random() < 0.4:
        return {"MYTH_DEF_STKSIZE": str(r.choice([262152, 300008, 393240, 262148, 262147, 524289]))}
    return {}


SPEC["env_extra"] = env_extra


def args(r, tier, v, nw):
    groups = r.choice([2, 4, 8, 16])
    gsize = r.choice([2, 4, 8, 16, 32])
    steps = r.choice([100, 200, 400]) if tier == "quick" else r.choice([200, 400, 800])
    odd = r.choice([0, 1])
    return ["groups=%d" % groups, "gsize=%d" % gsize, "steps=%d" % steps, "oddstack=%d" % odd], "g%dx%d%s" % (groups, gsize, "o" if odd else "")


SPEC["args"] = args


def post(cases, cov):
    tot, mig = {}, {}
    for c in cases:
        h = (c.vsum or {}).get("h", {})
        if c.meta.get("nw", 1) < 2:
            continue
        for k in KINDS:
            tot[k] = tot.get(k, 0) + h.get("probes_" + k, 0)
            mig[k] = mig.get(k, 0) + h.get("migrated_" + k, 0)
    cov["probes_per_switcher_on_multiworker_runs"] = tot
    cov["probes_that_returned_on_another_worker"] = mig
    cov["switchers_never_migrated"] = [k for k in KINDS if tot.get(k, 0) and not mig.get(k, 0)]
    cov["total_probes"] = cov["harness_totals"].get("probes", 0)
    return []


def run(b, tier, seed, t0):
    return generic.run(b, tier, seed, t0, "C03", SPEC, post=post)
