"""C13 -- see c12.py (shared harness and ledger)"""
from . import c12


def run(b, tier, seed, t0):
    return c12.run(b, tier, seed, t0, prop="C13")
