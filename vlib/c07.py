"""C07 -- join counter"""
from . import generic

SPEC = {
    "tag": "jc", "src": "h_jc.c",
    "window": ["BQ_BEFORE_SWITCH", "JC_WAIT_BEFORE_CAS", "JC_WAIT_AFTER_CAS", "JC_DEC_BEFORE_CAS", "JC_DEC_BEFORE_WAKE", "BQ_CB_BEFORE_ENQ",
               "BQ_CB_AFTER_ENQ", "WAKENQ_AFTER_DEQ", "WAKENQ_BEFORE_PUSH", "JC_WAIT_RESUMED"],
    "ampl": ["BQ_BEFORE_POP", "WAKENQ_AFTER_PUSH", "YIELD_CB_AFTER_PUT", "FIN_BEFORE_POP", "CREATE_AFTER_PARENT_PUSH"],
    "required": ["JC_WAIT_IMMEDIATE", "JC_WAIT_RESUMED", "WAKENQ_WAITED", "SCHED_STEAL_OK"],
    "nontrivial_ids": ["JC_WAIT_RESUMED"],
    "n_quick": 150, "n_thorough": 3000,
    "variants": {"h0": 55, "h2": 35, "asan": 10},
    "rule": ("each evaluation is one process running `progs` programs: join counters with N in {0,1,2,3,4,7,8,15,16,"
             "255,256,1000,65535,65536} decremented by 1-8 threads while 0-64 waiters arrive before/between/after "
             "(random creation order), big-N field-split probes (2^20, 2^30, 2^30+1, 2^31-1: the API takes an int), and random DAGs "
             "(in-degree<=8) whose node bodies assert all predecessors are done. Oracle: decs_started>=N at every wait "
             "return, waits issued after the last dec returned must not enter a blocking path, termination. "
             "Non-trivial = at least one waiter blocked and was released; distinct = distinct (hook ids that fired, "
             "worker count, profile kind)."),
}


def args(r, tier, v, nw):
    progs = 10 if tier == "quick" else 20
    return ["progs=%d" % progs], "mix"


SPEC["args"] = args


def run(b, tier, seed, t0):
    return generic.run(b, tier, seed, t0, "C07", SPEC)
