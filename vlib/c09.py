"""C09 -- full/empty lock"""
from . import generic

SPEC = {
    "tag": "felock", "src": "h_felock.c",
    "window": ["FE_AFTER_STATUS", "FE_AFTER_SIGNAL", "BQ_BEFORE_SWITCH", "BQ_CB_BEFORE_ENQ", "BQ_CB_AFTER_ENQ",
               "WAKEANY_AFTER_DEQ", "COND_WAIT_RESUMED", "MTX_UNLOCK_AFTER_DEC", "MTX_CLEAR_BIT"],
    "ampl": ["BQ_BEFORE_POP", "WAKEANY_AFTER_PUSH", "WAKE1_AFTER_PUSH", "YIELD_CB_AFTER_PUT", "FIN_BEFORE_POP"],
    "required": ["FE_AFTER_SIGNAL", "COND_WAIT_RESUMED", "WAKEANY_EMPTY", "MTX_LOCK_BLOCKS", "SCHED_STEAL_OK"],
    "nontrivial_ids": ["COND_WAIT_RESUMED"],
    "n_quick": 80, "n_thorough": 2500,
    "variants": {"h0": 55, "h2": 35, "asan": 10},
    "rule": ("each evaluation is one process running `progs` single-slot mailbox programs (1-8 producers, 1-8 "
             "consumers, 0-3 plain lock/unlock users) or multi-item mailbox programs (status 1 = not empty: producers take "
             "the plain lock, push and mark 1 - often while the status already is 1 - and 2-8 consumers wait for 1, pop and "
             "mark 1 while items remain, so several threads sleep for the same status and every mark must let one of "
             "them proceed) over one full/empty lock; items carry unique ids; under the "
             "lock the harness asserts status==s after wait_and_lock(s), exclusivity (occupancy witness) and "
             "slot/status agreement; at the end consumed multiset == produced multiset. Non-trivial = at least one "
             "participant slept on a status condition and was resumed; distinct = distinct (hook ids that fired, "
             "worker count, profile kind)."),
}


def args(r, tier, v, nw):
    progs = 5 if tier == "quick" else 10
    return ["progs=%d" % progs], "mix"


SPEC["args"] = args


def run(b, tier, seed, t0):
    return generic.run(b, tier, seed, t0, "C09", SPEC)
