"""generic runner for the schedule-driven properties (one harness, many seeded runs)"""
from . import core
from .core import Case

ASSUME = [
    "x86-64 host; schedules are sampled (seeded delay injection at hook points, worker counts 1..16+, OS preemption), not enumerated",
    "lost wake-ups / lost threads are decided logically by the runtime watchdog (all workers idle, nothing resumed); a wall-clock timeout is re-run once and then reported as hang",
    "the hooks only add calls; delay at a hook point is an interleaving a preemptible worker can have",
]


def make_cases(exes, tier, seed, prop, spec):
    r = core.rng(seed, prop, tier)
    n = spec["n_quick"] if tier == "quick" else spec["n_thorough"]
    nws = spec.get("nws_quick", [1, 2, 3, 4, 8, 16]) if tier == "quick" else spec.get("nws_thorough", [1, 2, 3, 4, 6, 8, 12, 16, 24, 32])
    vw = spec.get("variants", {"h0": 60, "h2": 30, "asan": 10})
    vs = [v for v in vw if v in exes]
    cases = []
    for i in range(n):
        v = r.choices(vs, weights=[vw[x] for x in vs])[0]
        nw = r.choice(nws)
        pk = r.choices(["calm", "noise", "targeted"], weights=spec.get("profile_weights", [15, 30, 55]))[0]
        env = {"MYTH_NUM_WORKERS": nw, "VERIF_SEED": seed, "MYTH_VERIF_RUNSEED": i}
        if pk == "noise":
            env["MYTH_VERIF_PROFILE"] = "noise%d" % r.choice([1, 2, 3])
        elif pk == "targeted":
            tg = [r.choice(spec["window"]), r.choice(spec["ampl"])]
            if r.random() < 0.3:
                tg.append(r.choice(spec["window"]))
            env["MYTH_VERIF_PROFILE"] = "targeted:" + ",".join(tg)
            env["MYTH_VERIF_TARGET_P"] = r.choice([24, 64, 128])
            env["MYTH_VERIF_TARGET_US"] = r.choice([100, 300, 600])
        if r.random() < spec.get("pf_prob", 0.15):
            env["MYTH_CHILD_FIRST"] = "0"
        if r.random() < 0.25:
            env["MYTH_VERIF_PAIRS"] = "1"
        if v == "asan":
            env.update(core.ASAN_ENV)
        if spec.get("env_extra"):
            env.update(spec["env_extra"](r, tier, v, nw))
        args, shape = spec["args"](r, tier, v, nw)
        args = ["seed=%d" % (seed * 100003 + i)] + args
        cases.append(Case([exes[v]] + args, env=env, timeout=spec.get("timeout", 300) * (2 if v == "asan" else 1),
                          weight=min(nw, 8),
                          tag="%s:%s:nw%d:%s:%d" % (spec["tag"], v, nw, env.get("MYTH_VERIF_PROFILE", "calm"), i),
                          meta={"nw": nw, "variant": v, "shape": shape, "pk": pk}))
    return cases


def run(b, tier, seed, t0, prop, spec, extra_cases=None, post=None):
    exes = {}
    for v in spec.get("variants", {"h0": 1, "h2": 1, "asan": 1}):
        lib = b.lib(v, defs=spec.get("defs", ()))
        exes[v] = b.harness(spec["src"], lib, extra_src=spec.get("extra_src", ()))
    cases = make_cases(exes, tier, seed, prop, spec)
    if extra_cases:
        cases += extra_cases(b, exes, tier, seed)
    core.run_cases(cases)
    hits = core.aggregate_hits(cases)
    h = core.aggregate_h(cases)
    interest = set(spec["window"] + spec["ampl"] + spec["required"] + spec.get("interest", []))
    sigs = set()
    pairs = 0
    nontriv_key = spec.get("nontrivial_ids", spec["required"])
    for c in cases:
        if not c.vsum:
            continue
        rt = c.vsum.get("rt", {})
        pairs = max(pairs, rt.get("pairs", 0) or 0)
        rh = rt.get("hits", {})
        if any(rh.get(k, 0) > 0 for k in nontriv_key):
            sigs.add(core.signature(c, interest))
    unreached = [k for k in spec["required"] if not hits.get(k)]
    cov = {
        "evaluations": len(cases),
        "distinct_nontrivial": len(sigs),
        "rule": spec["rule"],
        "samples": core.collect_samples(cases) or [{"case": cases[0].tag, "cmd": cases[0].cmd}],
        "harness_totals": h,
        "rare_branches_hit": {k: hits.get(k, 0) for k in spec["required"]},
        "window_points_hit": {k: hits.get(k, 0) for k in spec["window"] + spec["ampl"]},
        "unreached": unreached,
        "max_distinct_cross_worker_point_pairs_in_one_run": pairs,
        "builds": sorted(set(c.meta.get("variant", "?") for c in cases)),
        "worker_counts": sorted(set(c.meta.get("nw", 0) for c in cases)),
    }
    extra_viol = []
    if post:
        extra_viol = post(cases, cov) or []
    return core.finish(prop, tier, seed, spec.get("level", "exploration"), t0, cases, cov,
                       ASSUME + spec.get("assume", []), extra_violations=extra_viol)
