"""C08 -- uncondition variable"""
from . import generic

SPEC = {
    "tag": "uncond", "src": "h_uncond.c",
    "window": ["UNC_BEFORE_SWITCH", "UNC_BEFORE_SWITCH", "UNC_CB_BEFORE_PUB", "UNC_SIG_AFTER_CLEAR", "Q_PUSH_BEFORE_TOP", "Q_POP_AFTER_DEC"],
    "ampl": ["UNC_BEFORE_POP", "UNC_SIG_AFTER_PUSH", "YIELD_CB_AFTER_PUT", "FIN_BEFORE_POP"],
    "required": ["UNC_SIG_EARLY", "UNC_SIG_SPIN", "UNC_SIG_AFTER_CLEAR", "SCHED_STEAL_OK"],
    "nontrivial_ids": ["UNC_SIG_AFTER_CLEAR"],
    "n_quick": 90, "n_thorough": 3000,
    "variants": {"h0": 55, "h2": 35, "asan": 10},
    "rule": ("each evaluation is one process running `progs` programs: 1-12 thread pairs doing thousands of two-way "
             "rendezvous over the same two uncondition variables following the documented protocol (announce "
             "atomically, wait / atomically clear, signal) single-slot SPSC channels with numbered items, and rotation programs (2-6 threads take turns "
             "as the single waiter of ONE variable, served back to back by one signaler, so that a signal is often issued "
             "while the previous turn's waiter has been handed over but has not run yet); each "
             "wait return is checked against the stamp and sequence number of the signal that must have caused it "
             "and the per-side resume count. Non-trivial = at least one hand-over happened; UNC_SIG_EARLY counts "
             "signals that arrived before the waiter had published itself. distinct = distinct (hook ids that "
             "fired, worker count, profile kind)."),
}


def args(r, tier, v, nw):
    progs = 5 if tier == "quick" else 10
    return ["progs=%d" % progs], "mix"


SPEC["args"] = args


def run(b, tier, seed, t0):
    return generic.run(b, tier, seed, t0, "C08", SPEC)
