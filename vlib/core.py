"""core of the vcheck driver: builds, case runner, verdicts, evidence, known findings.

stdlib only.  Every build is made from /repo's current working tree."""
import json, os, sys, subprocess, time, shutil, threading, hashlib, fnmatch, signal, re
from concurrent.futures import ThreadPoolExecutor

VERIF = os.path.dirname(os.path.dirname(os.path.abspath(__file__)))
REPO = os.environ.get("VERIF_REPO", "/repo")
SRC = os.path.join(REPO, "src")
NCPU = os.cpu_count() or 16

COMMON_SRCS = ["myth_log.c", "myth_sched.c", "myth_internal_barrier.c", "myth_bind_worker.c",
               "myth_worker.c", "myth_sync.c", "myth_init.c", "myth_misc.c", "myth_tls.c",
               "myth_thread.c", "myth_context.c", "myth_if_native.c", "myth_real.c", "myth_eco.c"]
WRAP_SRCS = ["myth_wrap_pthread.c", "myth_wrap_malloc.c", "myth_wrap_socket.c"]

BASE_DEFS = ["-fPIC", "-DPIC", "-D_GNU_SOURCE", "-D_XOPEN_SOURCE", "-D_DARWIN_C_SOURCE",
             "-DHAVE_CONFIG_H", "-DMYTH_VERIF"]

VARIANT_FLAGS = {
    "h0": ["-O0", "-g", "-fno-omit-frame-pointer"],
    "h2": ["-O2", "-g", "-fno-omit-frame-pointer"],
    # nonnull-attribute is off: myth_wsapi_runqueue_peek does memcpy(dst, NULL, 0) for a thread
    # without a hint (harmless, outside every property's text; DESIGN section 7 "not findings")
    "asan": ["-O1", "-g", "-fno-omit-frame-pointer", "-fsanitize=address,undefined",
             "-fno-sanitize=nonnull-attribute", "-fno-sanitize-recover=all"],
}

ASAN_ENV = {
    "ASAN_OPTIONS": "abort_on_error=1:detect_leaks=0:detect_stack_use_after_return=0:alloc_dealloc_mismatch=0:handle_abort=1:allocator_may_return_null=1",
    "UBSAN_OPTIONS": "print_stacktrace=1:halt_on_error=1",
}


class HarnessError(Exception):
    pass


def log(*a):
    print(*a, file=sys.stderr, flush=True)


def sh(cmd, **kw):
    return subprocess.run(cmd, stdout=subprocess.PIPE, stderr=subprocess.STDOUT, text=True, **kw)


class Builder:
    def __init__(self, prop, tier):
        self.root = os.path.join(VERIF, "build", "%s-%s-%d" % (prop, tier, os.getpid()))
        os.makedirs(self.root, exist_ok=True)
        self.libs = {}
        self.lock = threading.Lock()

    def cleanup(self):
        shutil.rmtree(self.root, ignore_errors=True)
        try:
            os.rmdir(os.path.join(VERIF, "build"))
        except OSError:
            pass

    def inc_flags(self):
        inc = ["-I" + os.path.join(REPO, "include"), "-I" + SRC, "-I" + os.path.join(VERIF, "rt"),
               "-I" + os.path.join(VERIF, "harness")]
        if not os.path.exists(os.path.join(SRC, "config.h")):
            inc.append("-I" + os.path.join(VERIF, "support"))
        return inc

    def lib(self, variant="h0", wrap="vanilla", defs=()):
        """build the library (+ hook runtime) -> dict(dir, archive, so, flags)"""
        key = (variant, wrap, tuple(defs))
        with self.lock:
            if key in self.libs:
                return self.libs[key]
        name = "lib-%s-%s-%s" % (variant, wrap, hashlib.md5(repr(defs).encode()).hexdigest()[:6])
        d = os.path.join(self.root, name)
        os.makedirs(d, exist_ok=True)
        wrapdef = {"vanilla": "MYTH_WRAP_VANILLA", "ld": "MYTH_WRAP_LD", "dl": "MYTH_WRAP_DL"}[wrap]
        flags = VARIANT_FLAGS[variant] + BASE_DEFS + ["-DMYTH_WRAP=" + wrapdef] + list(defs)
        srcs = COMMON_SRCS + (WRAP_SRCS if wrap != "vanilla" else [])
        jobs = []
        for s in srcs:
            o = os.path.join(d, s[:-2] + ".o")
            jobs.append((["gcc", "-c"] + flags + self.inc_flags() + [os.path.join(SRC, s), "-o", o], o))
        rto = os.path.join(d, "myth_verif_rt.o")
        jobs.append((["gcc", "-c"] + flags + ["-Wall"] + self.inc_flags() +
                     [os.path.join(VERIF, "rt", "myth_verif_rt.c"), "-o", rto], rto))

        def one(j):
            r = sh(j[0])
            if r.returncode != 0:
                raise HarnessError("compile failed: %s\n%s" % (" ".join(j[0]), r.stdout[-3000:]))
            return j[1]
        with ThreadPoolExecutor(max_workers=NCPU) as ex:
            objs = list(ex.map(one, jobs))
        ar = os.path.join(d, "libmythv.a")
        r = sh(["ar", "rcs", ar] + objs)
        if r.returncode != 0:
            raise HarnessError("ar failed: " + r.stdout)
        info = {"dir": d, "archive": ar, "flags": flags, "variant": variant, "wrap": wrap, "objs": objs}
        if wrap == "dl":
            so = os.path.join(d, "libmyth-dl.so")
            r = sh(["gcc", "-shared"] + VARIANT_FLAGS[variant] + ["-o", so] + objs + ["-lpthread", "-ldl"])
            if r.returncode != 0:
                raise HarnessError("link .so failed: " + r.stdout[-3000:])
            info["so"] = so
        with self.lock:
            self.libs[key] = info
        return info

    def drlib(self, variant="asan"):
        """DAG Recorder: src/profiler/*.c -> libdr.a (+ hook runtime and harness kit objects), dag2any"""
        key = ("dr", variant)
        with self.lock:
            if key in self.libs:
                return self.libs[key]
        d = os.path.join(self.root, "dr-" + variant)
        os.makedirs(d, exist_ok=True)
        prof = os.path.join(SRC, "profiler")
        vflags = list(VARIANT_FLAGS[variant])
        if variant == "asan":
            # dr_accumulate_stats indexes logical_node_counts[kind] with kind = section/task (one/two slots past a
            # 4-element array inside the same struct) and the 45-byte file header misaligns everything behind it:
            # neither is what C18/C19 state (DESIGN 3.1)
            vflags += ["-fno-sanitize=bounds,alignment"]
        inc = ["-I" + prof] + self.inc_flags()
        srcs = ["dag_recorder.c", "dag_recorder_no_inl.c", "chronological.c", "dr_dump.c", "gen_stat.c", "gen_dot.c",
                "gen_gpl.c", "gen_text.c", "read_dag.c", "options.c", "interpolate_counters.c", "papi_counters.c"]
        # -DMYTH_VERIF: the recorder's time stamp read goes through the clock hook (dr_start_/dr_stop_ live in the archive)
        jobs = [(["gcc", "-c"] + vflags + ["-D_GNU_SOURCE", "-DHAVE_CONFIG_H", "-DMYTH_VERIF"] + inc + [os.path.join(prof, x), "-o", os.path.join(d, x[:-2] + ".o")],
                 os.path.join(d, x[:-2] + ".o")) for x in srcs]
        rto = os.path.join(d, "myth_verif_rt.o")
        jobs.append((["gcc", "-c"] + vflags + ["-D_GNU_SOURCE", "-DMYTH_VERIF"] + inc + [os.path.join(VERIF, "rt", "myth_verif_rt.c"), "-o", rto], rto))
        hko = os.path.join(d, "hk.o")
        jobs.append((["gcc", "-c"] + vflags + inc + [os.path.join(VERIF, "harness", "hk.c"), "-o", hko], hko))

        def one(j):
            r = sh(j[0])
            if r.returncode != 0:
                raise HarnessError("compile failed: %s\n%s" % (" ".join(j[0]), r.stdout[-3000:]))
            return j[1]
        with ThreadPoolExecutor(max_workers=NCPU) as ex:
            objs = list(ex.map(one, jobs))
        ar = os.path.join(d, "libdr.a")
        r = sh(["ar", "rcs", ar] + [o for o in objs if not o.endswith(("myth_verif_rt.o", "hk.o"))])
        if r.returncode != 0:
            raise HarnessError("ar failed: " + r.stdout)
        info = {"dir": d, "archive": ar, "variant": variant, "vflags": vflags, "inc": inc, "rt": rto, "hk": hko}
        exe = os.path.join(d, "dag2any")
        cmd = ["gcc"] + vflags + ["-D_GNU_SOURCE", "-DHAVE_CONFIG_H", "-DDAG_RECORDER=2", "-I" + os.path.join(prof, "dag2any")] + inc + \
              [os.path.join(prof, "dag2any", "dag2any.c"), ar, rto, "-lsqlite3", "-lpthread", "-ldl", "-lrt", "-o", exe]
        r = sh(cmd)
        if r.returncode != 0:
            raise HarnessError("dag2any build failed: %s\n%s" % (" ".join(cmd), r.stdout[-3000:]))
        info["dag2any"] = exe
        with self.lock:
            self.libs[key] = info
        return info

    def drharness(self, src, dr):
        exe = os.path.join(dr["dir"], os.path.splitext(src)[0])
        cmd = ["gcc"] + dr["vflags"] + ["-D_GNU_SOURCE", "-DMYTH_VERIF", "-DDAG_RECORDER=2"] + dr["inc"] + \
              [os.path.join(VERIF, "harness", src), dr["hk"], dr["rt"], dr["archive"], "-lpthread", "-ldl", "-lrt", "-o", exe]
        r = sh(cmd)
        if r.returncode != 0:
            raise HarnessError("harness compile failed: %s\n%s" % (" ".join(cmd), r.stdout[-4000:]))
        return exe

    def plain(self, src, lib, out, wrap_ld=False, asan=False):
        """compile a plain program (no harness kit, no hook runtime API): optionally linked against the
        ld-wrap library archive of `lib` (which carries the hook runtime the library itself calls)"""
        exe = os.path.join(lib["dir"], out)
        vflags = VARIANT_FLAGS[lib["variant"]] if (wrap_ld or asan) else ["-O1", "-g"]
        cmd = ["gcc"] + vflags + ["-D_GNU_SOURCE", os.path.join(VERIF, "harness", src)]
        if wrap_ld:
            cmd += ["@" + os.path.join(SRC, "myth-ld.opts"), lib["archive"]]
        cmd += ["-lpthread", "-ldl", "-lrt", "-o", exe]
        r = sh(cmd)
        if r.returncode != 0:
            raise HarnessError("plain compile failed: %s\n%s" % (" ".join(cmd), r.stdout[-4000:]))
        return exe

    def harness(self, src, lib, out=None, extra=(), cxx=False, link_lib=True, extra_src=()):
        """compile harness/<src> against a library build -> path of executable"""
        out = out or os.path.splitext(os.path.basename(src))[0]
        exe = os.path.join(lib["dir"], out)
        cc = "g++" if cxx else "gcc"
        vflags = VARIANT_FLAGS[lib["variant"]]
        cmd = [cc] + vflags + ["-DMYTH_VERIF", "-D_GNU_SOURCE"] + self.inc_flags() + list(extra)
        cmd += [os.path.join(VERIF, "harness", src)]
        for e in extra_src:
            cmd.append(os.path.join(VERIF, "harness", e))
        hk = os.path.join(lib["dir"], "hk.o")
        if not os.path.exists(hk):
            r = sh(["gcc", "-c"] + vflags + self.inc_flags() + [os.path.join(VERIF, "harness", "hk.c"), "-o", hk])
            if r.returncode != 0:
                raise HarnessError("hk compile failed: " + r.stdout[-2000:])
        cmd.append(hk)
        if link_lib:
            if lib["wrap"] == "ld":
                cmd += ["@" + os.path.join(SRC, "myth-ld.opts")]
            cmd += [lib["archive"]]
        cmd += ["-lpthread", "-ldl", "-lrt", "-o", exe]
        r = sh(cmd)
        if r.returncode != 0:
            raise HarnessError("harness compile failed: %s\n%s" % (" ".join(cmd), r.stdout[-4000:]))
        return exe


# ---------------------------------------------------------------------------- running

class Case:
    def __init__(self, cmd, env=None, timeout=120, weight=1, tag="", meta=None, stdin=None, cwd=None):
        self.cmd = cmd
        self.env = env or {}
        self.timeout = timeout
        self.weight = max(1, min(int(weight), NCPU))
        self.tag = tag
        self.meta = meta or {}
        self.stdin = stdin
        self.cwd = cwd
        # results
        self.rc = None
        self.out = ""
        self.err = ""
        self.wall = 0.0
        self.timed_out = False
        self.attempts = 0
        self.vsum = None
        self.viol = None     # (key, msg)
        self.skipped = False  # not run (or killed) because the run had already collected enough violations
        self.proc = None


MAX_RSS_KB = int(os.environ.get("VERIF_MAX_RSS_MB", "6000")) * 1024


def _rss_kb(pid):
    try:
        for line in open("/proc/%d/status" % pid):
            if line.startswith("VmRSS:"):
                return int(line.split()[1])
    except (OSError, ValueError):
        pass
    return 0


SIGNAMES = {getattr(signal, n): n for n in dir(signal) if n.startswith("SIG") and not n.startswith("SIG_")}


def run_one(c):
    env = dict(os.environ)
    env.setdefault("MYTH_BIND_WORKERS", "0")
    env.update({k: str(v) for k, v in c.env.items()})
    t0 = time.time()
    c.attempts += 1
    c.timed_out = False
    try:
        p = subprocess.Popen(c.cmd, stdout=subprocess.PIPE, stderr=subprocess.PIPE, env=env,
                             stdin=subprocess.DEVNULL if c.stdin is None else subprocess.PIPE,
                             cwd=c.cwd, start_new_session=True)
    except OSError as e:
        raise HarnessError("cannot start %r: %s" % (c.cmd, e))
    c.proc = p
    c.mem_killed = False
    deadline = t0 + c.timeout
    first = True
    while True:
        try:
            out, err = p.communicate(input=c.stdin if first else None, timeout=min(2.0, max(0.05, deadline - time.time())))
            break
        except subprocess.TimeoutExpired:
            first = False
            rss = _rss_kb(p.pid)
            if time.time() >= deadline or rss > MAX_RSS_KB:
                if rss > MAX_RSS_KB:
                    c.mem_killed = True
                else:
                    c.timed_out = True
                try:
                    os.killpg(p.pid, signal.SIGKILL)
                except OSError:
                    pass
                out, err = p.communicate()
                break
    c.proc = None
    c.rc = p.returncode
    c.out = out.decode("utf-8", "replace")
    c.err = err.decode("utf-8", "replace")[-20000:]
    c.wall = time.time() - t0
    c.vsum = None
    c.viol = None
    for line in c.out.splitlines():
        if line.startswith("VSUM "):
            try:
                c.vsum = json.loads(line[5:])
            except ValueError:
                pass
        elif line.startswith("VRT ") and c.vsum is None:
            try:
                c.vsum = {"rt": json.loads(line[4:]), "h": {}, "samples": []}
            except ValueError:
                pass
        elif line.startswith("VVIOL "):
            m = re.match(r"VVIOL key=(\S+) msg=(.*)", line)
            if m and c.viol is None:
                c.viol = (m.group(1), m.group(2))
    return c


def run_cases(cases, cap=None, progress=None, max_violations=12):
    """run cases concurrently; sum of weights of running cases <= cap.
    Fail fast: once max_violations cases have violated, the remaining cases are skipped and the
    running ones are killed (their results are discarded) - a violating tree needs no full sweep."""
    cap = cap or (NCPU + 4)
    lock = threading.Condition()
    state = {"load": 0, "done": 0, "viol": 0, "stop": False}
    threads = []
    running = set()

    def worker(c):
        try:
            run_one(c)
            if c.timed_out and not getattr(c, "mem_killed", False) and c.attempts < 2 and not state["stop"]:
                run_one(c)   # one automatic re-run before anything is reported
            if state["stop"] and (c.timed_out or (c.rc is not None and c.rc < 0 and not c.viol and c.rc == -9)):
                c.skipped = True
        finally:
            with lock:
                state["load"] -= c.weight
                state["done"] += 1
                running.discard(c)
                if not c.skipped and classify(c)[0] != "ok":
                    # a confirmed hang costs two full timeouts: it counts for three
                    state["viol"] += 3 if classify(c)[0] == "hang" else 1
                    if state["viol"] >= max_violations and not state["stop"]:
                        state["stop"] = True
                        log("fail-fast: %d violating cases, stopping the sweep" % state["viol"])
                        for o in list(running):
                            o.skipped = True
                            pr = o.proc
                            if pr is not None:
                                try:
                                    os.killpg(pr.pid, signal.SIGKILL)
                                except OSError:
                                    pass
                lock.notify_all()

    order = sorted(cases, key=lambda c: -c.weight)
    for c in order:
        with lock:
            while state["load"] + c.weight > cap and state["load"] > 0 and not state["stop"]:
                lock.wait()
            if state["stop"]:
                c.skipped = True
                continue
            state["load"] += c.weight
            running.add(c)
        t = threading.Thread(target=worker, args=(c,))
        t.start()
        threads.append(t)
    for t in threads:
        t.join()
    return cases


def classify(c):
    """-> (status, key, detail); status in ok | violation | inconclusive"""
    if c.viol:
        return "violation", c.viol[0], c.viol[1]
    if getattr(c, "mem_killed", False):
        return "violation", "runaway-memory:" + (c.tag.split(":")[0] or "case"), "resident set grew beyond %d MB; killed by the driver" % (MAX_RSS_KB // 1024)
    if c.timed_out:
        return "hang", "hang:" + (c.tag.split(":")[0] or "case"), \
            "no verdict within %ds wall time (attempted %d times)" % (c.timeout, c.attempts)
    if c.rc == 0:
        return "ok", None, None
    if c.rc is not None and c.rc < 0:
        sig = SIGNAMES.get(-c.rc, str(-c.rc))
        key = "crash:%s" % sig
        m = re.search(r"ERROR: AddressSanitizer: (\S+)", c.err)
        if m:
            key = "asan:%s" % m.group(1)
        m2 = re.search(r"runtime error: (.*)", c.err)
        if m2 and not m:
            key = "ubsan:%s" % re.sub(r"[^a-zA-Z]+", "-", m2.group(1))[:50]
        m3 = re.search(r"Assertion [`'](.*?)' failed", c.err)
        if m3 and not m:
            key = "assert:%s" % re.sub(r"\s+", "", m3.group(1))[:60]
        return "violation", key, (c.err.strip().splitlines() or [""])[-1][:300]
    m = re.search(r"ERROR: AddressSanitizer: (\S+)", c.err)
    if m:
        return "violation", "asan:%s" % m.group(1), ""
    m2 = re.search(r"runtime error: (.*)", c.err)
    if m2:
        return "violation", "ubsan:%s" % re.sub(r"[^a-zA-Z]+", "-", m2.group(1))[:50], ""
    return "violation", "exit:%d" % c.rc, (c.err.strip().splitlines() or [""])[-1][:300]


# ---------------------------------------------------------------------------- findings

def load_findings():
    p = os.path.join(VERIF, "known_findings.json")
    if not os.path.exists(p):
        return []
    return json.load(open(p)).get("findings", [])


def match_finding(findings, prop, key):
    for f in findings:
        if f.get("property") != prop or f.get("status") != "open":
            continue
        if fnmatch.fnmatchcase(key, f.get("key", "")):
            return f
    return None


# ---------------------------------------------------------------------------- evidence / verdict

def signature(c, ids_of_interest=None):
    """coverage signature of one run: which hook ids fired (non-zero), worker count, profile kind"""
    rt = (c.vsum or {}).get("rt", {})
    hits = rt.get("hits", {})
    names = sorted(k for k, v in hits.items() if v and (ids_of_interest is None or k in ids_of_interest))
    prof = c.env.get("MYTH_VERIF_PROFILE", "calm").split(":")[0]
    h = hashlib.sha1(("|".join(names) + "#" + str(c.meta.get("nw", "")) + "#" + prof + "#" +
                      str(c.meta.get("shape", "")) + "#" + str(rt.get("pairs", ""))).encode()).hexdigest()[:16]
    return h


def finish(prop, tier, seed, level, t0, cases, coverage, assumptions, builder=None, extra_violations=()):
    """classify all cases, apply known findings, write evidence and return the exit code"""
    findings = load_findings()
    evdir = os.environ.get("VERIF_EVIDENCE_DIR") or os.path.join(VERIF, "evidence")
    repdir = os.path.join(evdir, "replays") if os.environ.get("VERIF_EVIDENCE_DIR") else os.path.join(VERIF, "replays")
    os.makedirs(evdir, exist_ok=True)
    os.makedirs(repdir, exist_ok=True)
    viol = []        # (key, detail, case)
    inconclusive = []
    n_ok = 0
    cases = [c for c in cases if not c.skipped]
    slow = sorted([c for c in cases if getattr(c, "wall", None)], key=lambda c: -c.wall)[:4]
    if slow and slow[0].wall > 20:
        log("slowest cases: " + "; ".join("%s %.0fs" % (c.tag, c.wall) for c in slow))
    for c in cases:
        st, key, detail = classify(c)
        if st == "ok":
            n_ok += 1
        elif st in ("violation", "hang"):
            viol.append((key, detail, c))
    for key, detail in extra_violations:
        viol.append((key, detail, None))
    new = []
    known = {}
    for key, detail, c in viol:
        f = match_finding(findings, prop, key)
        if f:
            known.setdefault(f["key"], [f, 0])[1] += 1
        else:
            new.append((key, detail, c))
    for k, (f, n) in known.items():
        print("KNOWN-FINDING: property=%s %s (%s; %d occurrence(s) in this run)" % (prop, f["key"], f.get("what", ""), n))
    rc = 0
    replay_paths = []
    if new:
        rc = 1
        seen = set()
        for i, (key, detail, c) in enumerate(new):
            if key in seen and i > 20:
                continue
            seen.add(key)
            path = os.path.join(repdir, "%s-%s-%d.json" % (prop, tier, i))
            rep = {"property": prop, "key": key, "detail": detail}
            if c is not None:
                rep.update({"cmd": c.cmd, "env": c.env, "tag": c.tag, "meta": c.meta, "rc": c.rc,
                            "stdout_tail": c.out[-4000:], "stderr_tail": c.err[-6000:],
                            "note": "re-run with the same command and environment; schedule-driven "
                                    "violations replay statistically (same seed and profile, repeat N times)"})
            json.dump(rep, open(path, "w"), indent=1, default=lambda o: "<%s %s>" % (type(o).__name__, getattr(o, "tag", "")))
            replay_paths.append(path)
            if len(replay_paths) <= 10:
                print("VIOLATION property=%s replay=%s" % (prop, path))
                log("  key=%s %s" % (key, (detail or "")[:300]))
    coverage = dict(coverage)
    coverage.setdefault("evaluations", len(cases))
    ev = {
        "property_id": prop, "tier": tier, "seed": int(seed), "level": level,
        "coverage": coverage, "assumptions": assumptions,
        "wall_s": round(time.time() - t0, 2),
        "violations": len(new),
    }
    ev["coverage"]["runs_ok"] = n_ok
    ev["coverage"]["known_findings_hit"] = {k: v[1] for k, v in known.items()}
    ev["coverage"]["new_violation_keys"] = sorted(set(k for k, _, _ in new))[:40]
    if rc == 0 and (coverage.get("evaluations", 0) < 1 or coverage.get("distinct_nontrivial", 0) < 2):
        log("INCONCLUSIVE: the monitors observed too little (evaluations=%s distinct_nontrivial=%s)" %
            (coverage.get("evaluations"), coverage.get("distinct_nontrivial")))
        rc = 2
    json.dump(ev, open(os.path.join(evdir, "%s.json" % prop), "w"), indent=1)
    return rc


def aggregate_hits(cases):
    tot = {}
    for c in cases:
        rt = (c.vsum or {}).get("rt", {})
        for k, v in rt.get("hits", {}).items():
            tot[k] = tot.get(k, 0) + v
    return tot


def aggregate_h(cases):
    tot = {}
    for c in cases:
        for k, v in ((c.vsum or {}).get("h", {}) or {}).items():
            if isinstance(v, (int, float)):
                tot[k] = tot.get(k, 0) + v
    return tot


def collect_samples(cases, n=4):
    out = []
    for c in cases:
        for s in (c.vsum or {}).get("samples", []):
            out.append({"case": c.tag, "sample": s})
            if len(out) >= n:
                return out
    return out


def rng(seed, *salt):
    import random
    return random.Random(int(hashlib.sha1((str(seed) + "/" + "/".join(map(str, salt))).encode()).hexdigest()[:12], 16))
