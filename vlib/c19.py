"""C19 -- see c18.py"""
from . import c18


def run(b, tier, seed, t0):
    return c18.run(b, tier, seed, t0, prop="C19")
