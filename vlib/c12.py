"""C12 -- stacks and thread records are never reused or released while still in use
   C13 -- each thread is reaped exactly once and reaping recycles its resources
   (shared machinery: harness h_reap + the ownership ledger of the hook runtime)"""
from . import core
from .core import Case

LEVEL = "exploration"
WINDOW = ["EP_CB_BEFORE_STACKREL", "EP_CB_BEFORE_STATUS", "EP_CB_AFTER_STATUS", "FIN_BEFORE_LOCK", "FIN_LOCKED",
          "JOIN_LOCKED", "JOIN_CB_BEFORE_SET", "TRYJOIN_LOCKED", "DETACH_ENTER", "DETACH_LOCKED", "JOIN_BEFORE_SWITCH",
          "JOIN_BEFORE_RELEASE", "CREATE1_ENTER"]
AMPL = ["CREATE_AFTER_PARENT_PUSH", "CREATE_PF_AFTER_PUSH", "JOIN_BEFORE_POP", "FIN_BEFORE_POP", "YIELD_CB_AFTER_PUT"]
REQUIRED = ["FIN_DETACHED", "DETACH_FINISHED_FAST", "DETACH_FINISHED_LOCKED", "DETACH_RUNNING", "JOIN_FOUND_FINISHED",
            "FIN_SAW_WAITER", "SCHED_STEAL_OK"]

RULE12 = ("each evaluation = one process of h_reap (mode mix: windows of up to 64 threads with random reaping kind, stack size "
          "(default, 4..2048 pages, non-page-multiples -> size-class rounding), whole-stack canaries up to 2 MiB re-verified "
          "after every resumption (yield / steal_first yield / create+join inside), reaped in random order; mode live: "
          "thousands of simultaneously live threads blocked on a gate, joined late in reverse order with exit values checked) "
          "under the ownership ledger: every record/stack acquisition and release goes through CAS-updated ledger entries "
          "(acquire-while-in-use, double release, page-granular overlap of live stacks, release by code running on the stack, "
          "size word mismatch, pattern/ASan poison for writes after release). Non-trivial = >=2 workers and >=1 steal, or "
          "a live-mode run; distinct = distinct (hook ids that fired, worker count, profile kind, mode).")
RULE13 = ("each evaluation = one process of h_reap: mode mix (all six reaping kinds: join, tryjoin, timedjoin with past and far "
          "deadlines, detach before finish, detach after finish, detach-state attribute) with a release callback that accepts a "
          "record release only after the function returned and a reaping operation was requested, exactly one release per "
          "reaped thread, ledger empty at quiescence; tryjoin: 0 only after the function returned, EBUSY never after the "
          "finished state was published before the call (generation-checked FINISHED hook); timedjoin never gives up before "
          "its deadline; mode cycles: 1 worker, tens of thousands of create/reap cycles per kind with fresh allocations "
          "bounded by 8. Non-trivial = the run reaped threads by >=3 different kinds or is a cycles run; distinct = distinct "
          "(hook ids, worker count, profile kind, mode, kind).")


def make_cases(b, tier, seed, prop):
    r = core.rng(seed, prop, tier)
    exes = {v: b.harness("h_reap.c", b.lib(v)) for v in ("h0", "h2", "asan")}
    cases = []
    n = (70 if tier == "quick" else 1400)
    for i in range(n):
        v = r.choices(["h0", "h2", "asan"], weights=[45, 25, 30])[0]
        nw = r.choice([1, 2, 3, 4, 8, 16])
        pk = r.choices(["calm", "noise", "targeted"], weights=[20, 30, 50])[0]
        env = {"MYTH_NUM_WORKERS": nw, "VERIF_SEED": seed, "MYTH_VERIF_RUNSEED": i}
        if pk == "noise":
            env["MYTH_VERIF_PROFILE"] = "noise%d" % r.choice([1, 2, 3])
        elif pk == "targeted":
            env["MYTH_VERIF_PROFILE"] = "targeted:%s,%s" % (r.choice(WINDOW), r.choice(AMPL))
            env["MYTH_VERIF_TARGET_P"] = r.choice([24, 64, 128])
        if r.random() < 0.25:
            env["MYTH_VERIF_PAIRS"] = 1
        mode = "mix" if (prop == "C13" or r.random() < 0.8) else "live"
        nthreads = r.choice([600, 1500]) if mode == "mix" else r.choice([500, 2000] if tier == "quick" else [2000, 6000])
        args = ["seed=%d" % (seed * 100057 + i), "mode=%s" % mode, "n=%d" % nthreads]
        if tier == "quick":
            args.append("maxcanary=%d" % r.choice([65536, 262144, 2097152]))
        if v == "asan":
            env.update(core.ASAN_ENV)
            args += ["minpages=32", "reserve=60000", "maxpages=512"]
        elif tier == "quick":
            args += ["maxpages=512"] if r.random() < 0.8 else []
        cases.append(Case([exes[v]] + args, env=env, timeout=(200 if v != "asan" else 400) if tier == "quick" else (400 if v != "asan" else 700), weight=min(nw, 8),
                          tag="reap:%s:%s:nw%d:%s:%d" % (mode, v, nw, env.get("MYTH_VERIF_PROFILE", "calm"), i),
                          meta={"nw": nw, "variant": v, "shape": mode, "pk": pk, "mode": mode}))
    if prop == "C13":
        ncyc = 20000 if tier == "quick" else 300000
        for kind in range(6):
            for v in (("h0",) if tier == "quick" else ("h0", "h2")):
                env = {"MYTH_NUM_WORKERS": 1, "VERIF_SEED": seed, "MYTH_VERIF_RUNSEED": 9000 + kind, "MYTH_VERIF_STACK_FILL": 0}
                cases.append(Case([exes[v], "seed=%d" % (seed + kind), "mode=cycles", "n=%d" % ncyc, "kind=%d" % kind],
                                  env=env, timeout=600, weight=1, tag="reap:cycles:%s:kind%d" % (v, kind),
                                  meta={"nw": 1, "variant": v, "shape": "cycles%d" % kind, "pk": "calm", "mode": "cycles"}))
    return cases


def summarize(cases, prop):
    hits = core.aggregate_hits(cases)
    h = core.aggregate_h(cases)
    interest = set(WINDOW + AMPL + REQUIRED)
    sigs = set()
    for c in cases:
        if not c.vsum:
            continue
        rh = c.vsum.get("rt", {}).get("hits", {})
        hh = c.vsum.get("h", {})
        if prop == "C12":
            ok = c.meta["mode"] == "live" or (c.meta["nw"] >= 2 and rh.get("SCHED_STEAL_OK", 0) > 0)
        else:
            kinds = sum(1 for k, v in hh.items() if k.startswith("reaped_by_") and v > 0)
            ok = c.meta["mode"] == "cycles" or kinds >= 3
        if ok:
            sigs.add(core.signature(c, interest))
    led = {}
    for c in cases:
        for k, v in ((c.vsum or {}).get("rt", {}).get("ledger", {}) or {}).items():
            if k.startswith("live"):
                continue
            led[k] = led.get(k, 0) + v
    return hits, h, sigs, led


def run(b, tier, seed, t0, prop="C12"):
    cases = make_cases(b, tier, seed, prop)
    core.run_cases(cases)
    hits, h, sigs, led = summarize(cases, prop)
    cov = {
        "evaluations": len(cases), "distinct_nontrivial": len(sigs), "rule": RULE12 if prop == "C12" else RULE13,
        "samples": core.collect_samples(cases, 4) or [{"case": cases[0].tag}],
        "harness_totals": h, "ledger_totals": led,
        "rare_branches_hit": {k: hits.get(k, 0) for k in REQUIRED},
        "window_points_hit": {k: hits.get(k, 0) for k in WINDOW + AMPL},
        "unreached": [k for k in REQUIRED if not hits.get(k)],
    }
    assumptions = [
        "the ledger is fed by the DESC/STACK hooks placed at the library's acquisition and release sites; the monitor state is CAS-updated inside the same hook call",
        "writes after release are detected by ASan poisoning (asan build) or by a fill pattern on the top 16 KiB of default-size stacks (h0/h2); red-zone tools miss non-adjacent writes",
        "bounded memory is asserted for one worker only, as the property states",
    ]
    return core.finish(prop, tier, seed, LEVEL, t0, cases, cov, assumptions)
