"""C10 -- thread-specific data is private to (thread, key) and follows the thread"""
from . import core
from .core import Case

LEVEL = "exploration"
RULE = ("unit: each evaluation = one process running hundreds of random set/get sequences (six key-subset shapes that force "
        "every lazily allocated level and overflow of the embedded node pool) over all 1024 indices against a dictionary, "
        "key create/delete sequences against a set model up to exhaustion at 1024, and 2-8 OS threads doing concurrent "
        "create/delete with a liveness mark per key + free-list walk at quiescence (delay points before both free-list "
        "CASes; the ABA window is driven by targeted profiles). library: batches of threads store tag-derived values under "
        "random key subsets of 1024 live keys, yield (steal_first) until resumed on another worker, re-read, check "
        "never-set keys and same-leaf neighbours read NULL. Non-trivial unit run = concurrent creates happened; "
        "non-trivial library run = at least one thread was observed on two workers. distinct = distinct (hook ids, "
        "thread count / worker count, profile kind).")


def run(b, tier, seed, t0):
    r = core.rng(seed, "c10", tier)
    cases = []
    unit = {v: b.harness("h_tls_unit.c", b.lib(v), extra=core.BASE_DEFS + ["-DMYTH_WRAP=MYTH_WRAP_VANILLA"]) for v in ("h0", "asan")}
    libx = {v: b.harness("h_tls_lib.c", b.lib(v)) for v in ("h0", "h2", "asan")}
    n_unit = 40 if tier == "quick" else 800
    n_lib = 50 if tier == "quick" else 1000
    for i in range(n_unit):
        v = r.choice(["h0", "asan"])
        threads = r.choice([2, 3, 4, 8])
        pk = r.choices(["calm", "noise", "targeted"], weights=[20, 30, 50])[0]
        env = {"VERIF_SEED": seed, "MYTH_VERIF_RUNSEED": i, "MYTH_VERIF_WATCHDOG": 0}
        cops = 100000
        if pk == "noise":
            env["MYTH_VERIF_PROFILE"] = "noise%d" % r.choice([1, 2, 3])
        elif pk == "targeted":
            env["MYTH_VERIF_PROFILE"] = "targeted:" + r.choice(["KEY_ALLOC_BEFORE_CAS", "KEY_DEALLOC_BEFORE_CAS", "KEY_ALLOC_BEFORE_CAS,KEY_DEALLOC_BEFORE_CAS"])
            env["MYTH_VERIF_TARGET_P"] = r.choice([4, 16, 64])
            env["MYTH_VERIF_TARGET_US"] = r.choice([30, 100, 300])
            env["MYTH_VERIF_SLEEP_BUDGET_US"] = 4000000
            cops = 20000
        if v == "asan":
            env.update(core.ASAN_ENV)
        cases.append(Case([unit[v], "seed=%d" % (seed * 100003 + i), "rounds=%d" % (200 if tier == "quick" else 400),
                           "threads=%d" % threads, "cops=%d" % cops], env=env, timeout=300, weight=min(threads, 4),
                          tag="tls_unit:%s:t%d:%s:%d" % (v, threads, env.get("MYTH_VERIF_PROFILE", "calm"), i),
                          meta={"nw": threads, "variant": v, "kind": "unit", "pk": pk}))
    for i in range(n_lib):
        v = r.choices(["h0", "h2", "asan"], weights=[40, 30, 30])[0]
        nw = r.choice([1, 2, 3, 4, 8, 16])
        env = {"MYTH_NUM_WORKERS": nw, "VERIF_SEED": seed, "MYTH_VERIF_RUNSEED": 1000 + i}
        pk = r.choice(["calm", "noise", "noise"])
        if pk == "noise":
            env["MYTH_VERIF_PROFILE"] = "noise%d" % r.choice([1, 2, 3])
        if v == "asan":
            env.update(core.ASAN_ENV)
        cases.append(Case([libx[v], "seed=%d" % (seed * 100019 + i), "batches=%d" % (6 if tier == "quick" else 12),
                           "threads=%d" % r.choice([8, 24, 48]), "dtor_density=%d" % r.choice([0, 30, 60, 100])],
                          env=env, timeout=300, weight=min(nw, 8),
                          tag="tls_lib:%s:nw%d:%s:%d" % (v, nw, env.get("MYTH_VERIF_PROFILE", "calm"), i),
                          meta={"nw": nw, "variant": v, "kind": "lib", "pk": pk}))
    core.run_cases(cases)
    hits = core.aggregate_hits(cases)
    sigs = set()
    ut, lt = {}, {}
    for c in cases:
        if not c.vsum:
            continue
        h = c.vsum.get("h", {})
        tgt = ut if c.meta["kind"] == "unit" else lt
        for k, vv in h.items():
            if isinstance(vv, (int, float)) and k != "workers":
                tgt[k] = tgt.get(k, 0) + vv
        if c.meta["kind"] == "unit" and h.get("concurrent_creates", 0) > 0:
            sigs.add(core.signature(c))
        if c.meta["kind"] == "lib" and h.get("threads_observed_on_two_workers", 0) > 0:
            sigs.add(core.signature(c))
    cov = {
        "evaluations": len(cases), "distinct_nontrivial": len(sigs), "rule": RULE,
        "samples": core.collect_samples(cases, 4) or [{"case": cases[0].tag}],
        "unit_totals": ut, "library_totals": lt,
        "allocator_cas_points_hit": {k: hits.get(k, 0) for k in ("KEY_ALLOC_BEFORE_CAS", "KEY_DEALLOC_BEFORE_CAS")},
    }
    assumptions = ["the unit harness includes src/myth_tls_func.h and runs the real tree and allocator code on private instances",
                   "all 1024 keys are live in the library-level part (plus a few deleted ones); key identity of a destructor call is known from one trampoline per index"]
    return core.finish("C10", tier, seed, LEVEL, t0, cases, cov, assumptions)
