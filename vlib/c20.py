"""C20 -- sleeping and timed waits respect their deadlines"""
from . import core
from .core import Case

LEVEL = "exploration"
RULE = ("real-clock evaluations: one process = ~100 sleep calls (usleep/nanosleep/sleep, 0..20 ms, occasionally 1 s) with "
        "CLOCK_REALTIME read before and after (return 0, elapsed >= requested, a runnable sibling progressed), EINVAL probes "
        "(tv_nsec -1 / 1e9, tv_sec < 0) and ~100 timedlock/timedjoin cases with budgets from -1 ms to 1 h against holders / "
        "targets of 0..10 ms (time-out => clock past the deadline; no time-out if the holder had released before the call), "
        "on 1-16 workers with delay profiles. virtual-clock evaluations: one process on 1 worker = hundreds of cases in which "
        "the harness owns hr_gettime (start nsec 0/1/5e8/999999999, steps 1 ns..1 s and 2^34 s, deadline k steps after the "
        "start +-1 ns incl. already past and exactly equal, durations up to 2^40 s): a time-out must come at the first reading "
        "strictly after the deadline and never before, and must not come at all when the holder released / the target "
        "finished before an attempt that preceded the deadline (turn-by-turn deterministic). Non-trivial = the run saw both "
        "time-outs and successes; distinct = distinct (mode, worker count, profile kind, seed class).")


def run(b, tier, seed, t0):
    r = core.rng(seed, "c20", tier)
    exes = {v: b.harness("h_time.c", b.lib(v)) for v in ("h0", "h2")}
    cases = []
    nreal = 40 if tier == "quick" else 600
    nvirt = 60 if tier == "quick" else 1500
    for i in range(nreal):
        v = r.choice(["h0", "h2"])
        nw = r.choice([1, 1, 2, 4, 8, 16])
        env = {"MYTH_NUM_WORKERS": nw, "VERIF_SEED": seed, "MYTH_VERIF_RUNSEED": i}
        pk = r.choice(["calm", "noise", "noise"])
        if pk == "noise":
            env["MYTH_VERIF_PROFILE"] = "noise%d" % r.choice([1, 2])
        cases.append(Case([exes[v], "seed=%d" % (seed * 100069 + i), "mode=real", "cases=%d" % (120 if tier == "quick" else 300)],
                          env=env, timeout=300, weight=min(nw, 4), tag="time:real:%s:nw%d:%s:%d" % (v, nw, pk, i),
                          meta={"nw": nw, "variant": v, "pk": pk, "mode": "real", "i": i}))
    for i in range(nvirt):
        v = r.choice(["h0", "h2"])
        env = {"MYTH_NUM_WORKERS": 1, "VERIF_SEED": seed, "MYTH_VERIF_RUNSEED": 5000 + i}
        cases.append(Case([exes[v], "seed=%d" % (seed * 100103 + i), "mode=virtual", "cases=%d" % (400 if tier == "quick" else 1500)],
                          env=env, timeout=300, weight=1, tag="time:virtual:%s:%d" % (v, i),
                          meta={"nw": 1, "variant": v, "pk": "calm", "mode": "virtual", "i": i}))
    core.run_cases(cases)
    tot = {}
    sigs = set()
    for c in cases:
        if not c.vsum:
            continue
        h = c.vsum.get("h", {})
        for k, vv in h.items():
            if isinstance(vv, (int, float)) and k != "workers":
                tot[c.meta["mode"] + "_" + k] = tot.get(c.meta["mode"] + "_" + k, 0) + vv
        if (h.get("timedlock_timeouts", 0) + h.get("timedjoin_timeouts", 0)) > 0 and (h.get("timedlock_successes", 0) + h.get("timedjoin_successes", 0)) > 0:
            sigs.add((c.meta["mode"], c.meta["nw"], c.meta["pk"], c.meta["variant"], c.meta["i"] % 16))
    cov = {"evaluations": len(cases), "distinct_nontrivial": len(sigs), "rule": RULE,
           "samples": core.collect_samples(cases, 4) or [{"case": cases[0].tag}], "totals": tot}
    assumptions = ["real-clock checks are one-sided inequalities against CLOCK_REALTIME (the clock hr_gettime uses); wall time is never itself a verdict",
                   "virtual-clock cases run on one worker where turn taking between the caller and the holder/target is deterministic (local yields only)"]
    return core.finish("C20", tier, seed, LEVEL, t0, cases, cov, assumptions)
