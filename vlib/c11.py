"""C11 -- thread-specific data destructors run exactly once, with the right value"""
from . import core
from .core import Case

LEVEL = "exploration"
RULE = ("each evaluation = one process: 1024 keys created in index order on the fresh allocator (a random 0/30/60/100% of "
        "them with destructors, one distinct trampoline per key index, a few keys deleted), then batches of threads that "
        "store tag+key-encoded values under subsets of eight shapes (none, singleton anywhere, one key in a random 16-block, "
        "highest keys only, dense, a few random, last leaf of some top-level branches, first leaf empty), overwrite or "
        "clear some, and terminate by return / myth_exit / myth_cancel+myth_testcancel; after the joins the per-(thread,key) "
        "call counts must equal the model (1 iff live key with destructor and non-NULL value); a call whose value decodes "
        "to another key or to a key without destructor is an immediate violation; ASan build catches reads outside the key "
        "table. Key-churn evaluations (h_tls_churn): user threads create a key with destructor A, B or none, let 1-3 children "
        "store a record under it (some clear it) and terminate, join, require calls == (destructor registered and value "
        "non-NULL) and no call from the other destructor (a former owner's), and only then delete the key, while churner "
        "threads create/delete keys on the other workers (LIFO free list: indices change owner continuously). "
        "Additional single-key sweeps run every index 0..1023 as the only key set. Non-trivial = the run expected at "
        "least one destructor call; distinct = distinct (worker count, profile kind, destructor density, thread count).")


def run(b, tier, seed, t0):
    r = core.rng(seed, "c11", tier)
    libx = {v: b.harness("h_tls_lib.c", b.lib(v)) for v in ("h0", "asan")}
    cases = []
    n = 70 if tier == "quick" else 1200
    for i in range(n):
        v = r.choice(["h0", "asan"])
        nw = r.choice([1, 2, 4, 8, 16])
        env = {"MYTH_NUM_WORKERS": nw, "VERIF_SEED": seed, "MYTH_VERIF_RUNSEED": i}
        pk = r.choice(["calm", "noise"])
        if pk == "noise":
            env["MYTH_VERIF_PROFILE"] = "noise%d" % r.choice([1, 2])
        if v == "asan":
            env.update(core.ASAN_ENV)
        dens = r.choice([30, 60, 100, 100])
        th = r.choice([8, 24, 64])
        cases.append(Case([libx[v], "seed=%d" % (seed * 100043 + i), "batches=%d" % (8 if tier == "quick" else 20),
                           "threads=%d" % th, "dtor_density=%d" % dens],
                          env=env, timeout=300, weight=min(nw, 8),
                          tag="tlsdtor:%s:nw%d:d%d:%d" % (v, nw, dens, i),
                          meta={"nw": nw, "variant": v, "pk": pk, "shape": "d%dt%d" % (dens, th)}))
    # fewer keys: the key table is only partly populated (keys beyond nkeys were never created)
    for i, nk in enumerate([1, 15, 16, 17, 63, 64, 65, 255, 256, 257, 300, 1023]):
        v = "asan" if i % 2 else "h0"
        env = {"MYTH_NUM_WORKERS": 2, "VERIF_SEED": seed, "MYTH_VERIF_RUNSEED": 5000 + i}
        if v == "asan":
            env.update(core.ASAN_ENV)
        cases.append(Case([libx[v], "seed=%d" % (seed * 7 + i), "batches=6", "threads=32", "dtor_density=100", "nkeys=%d" % nk],
                          env=env, timeout=300, weight=2, tag="tlsdtor:%s:nkeys%d" % (v, nk),
                          meta={"nw": 2, "variant": v, "pk": "calm", "shape": "nkeys%d" % nk}))
    # key churn: keys created/deleted concurrently on all workers while threads holding values terminate
    chx = {v: b.harness("h_tls_churn.c", b.lib(v)) for v in ("h0", "h2", "asan")}
    nch = 36 if tier == "quick" else 600
    for i in range(nch):
        v = r.choice(["h0", "h2", "h2", "asan"])
        nw = r.choice([2, 3, 4, 8, 13, 16])
        env = {"MYTH_NUM_WORKERS": nw, "VERIF_SEED": seed, "MYTH_VERIF_RUNSEED": 9000 + i}
        pk = r.choice(["calm", "calm", "noise", "targeted"])
        if pk == "noise":
            env["MYTH_VERIF_PROFILE"] = "noise%d" % r.choice([1, 2])
        elif pk == "targeted":
            env["MYTH_VERIF_PROFILE"] = "targeted:KEY_ALLOC_BEFORE_CAS,KEY_DEALLOC_BEFORE_CAS,KEY_DEALLOC_AFTER_UNLOCK,KEY_ALLOC_AFTER_UNLOCK"
            env["MYTH_VERIF_TARGET_P"] = r.choice([5, 20])
        if v == "asan":
            env.update(core.ASAN_ENV)
        users = r.choice([2, 4, 8])
        churners = r.choice([1, 4, 8, 12])
        cyc = (150 if v == "asan" else 400) * (1 if tier == "quick" else 3)
        cases.append(Case([chx[v], "seed=%d" % (seed * 100069 + i), "users=%d" % users, "churners=%d" % churners, "cycles=%d" % cyc],
                          env=env, timeout=300, weight=min(nw, 8),
                          tag="tlschurn:%s:nw%d:u%dc%d:%d" % (v, nw, users, churners, i),
                          meta={"nw": nw, "variant": v, "pk": pk, "shape": "churn-u%dc%d" % (users, churners)}))
    core.run_cases(cases)
    sigs = set()
    tot = {}
    for c in cases:
        if not c.vsum:
            continue
        h = c.vsum.get("h", {})
        for k, vv in h.items():
            if isinstance(vv, (int, float)) and k != "workers":
                tot[k] = tot.get(k, 0) + vv
        if h.get("destructor_calls_expected", 0) > 0:
            sigs.add((c.meta["nw"], c.meta["pk"], c.meta["shape"], c.meta["variant"]))
    cov = {"evaluations": len(cases), "distinct_nontrivial": len(sigs), "rule": RULE,
           "samples": core.collect_samples(cases, 4) or [{"case": cases[0].tag}],
           "totals": tot}
    assumptions = ["calls with a NULL value are recorded but are not violations (the property does not forbid them; the pinned test myth_key_destructor relies on one)",
                   "calls for keys that were deleted while a thread still held a value are recorded, not judged"]
    return core.finish("C11", tier, seed, LEVEL, t0, cases, cov, assumptions)
