"""C14 -- myth_once"""
from . import generic

SPEC = {
    "tag": "once", "src": "h_once.c",
    "window": ["ONCE_BEFORE_CAS", "ONCE_AFTER_INIT", "YIELD_BEFORE_SWITCH", "YIELD_CB_BEFORE_PUT", "MTX_LOCK_AFTER_SEAT"],
    "ampl": ["YIELD_CB_AFTER_PUT", "CREATE_AFTER_PARENT_PUSH", "BQ_BEFORE_POP", "FIN_BEFORE_POP"],
    "required": ["ONCE_WAITING", "ONCE_AFTER_INIT", "SCHED_STEAL_OK"],
    "nontrivial_ids": ["ONCE_WAITING"],
    "n_quick": 120, "n_thorough": 2500,
    "variants": {"h0": 55, "h2": 35, "asan": 10},
    "rule": ("each evaluation is one process running `progs` programs: 1-64 once-controls whose init routines do "
             "nothing / yield / block on a mutex held elsewhere / create and join threads / compute, called by "
             "2-500 concurrent threads; every caller checks done==1 and ran==1 right after myth_once returns; later "
             "calls must not enter a blocking path nor run the routine. Non-trivial = at least one caller had to "
             "wait for a running initialiser; distinct = distinct (hook ids that fired, worker count, profile kind)."),
}


def args(r, tier, v, nw):
    progs = 6 if tier == "quick" else 12
    return ["progs=%d" % progs], "mix"


SPEC["args"] = args


def run(b, tier, seed, t0):
    return generic.run(b, tier, seed, t0, "C14", SPEC)
