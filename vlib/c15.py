"""C15 -- initialisation, worker count, finalisation and configuration parsing"""
import os, re
from . import core
from .core import Case

LEVEL = "exploration"
RULE = ("(a) h_init, one process per case: histories of 3-20 init/work/fini cycles with a different worker count 1..64 each time "
        "requested via the global attribute, myth_init_ex or MYTH_NUM_WORKERS, optionally with 1-8 extra OS threads racing the "
        "first myth_init; checks myth_get_num_workers()==requested, worker indices in [0,n), user code on <= n distinct OS "
        "threads, /proc/self/task == base+n-1 after init and == base after fini, fini called while the main thread runs on a "
        "worker != 0; in a third of the histories every cycle binds the workers (MYTH_BIND_WORKERS=1) with a different MYTH_CPU_LIST "
        "(numbers, a-b, a-b:c) and every worker's affinity mask must be exactly the CPU docs/bind.txt assigns to its rank. (b) h_env, one process per generated environment: MYTH_NUM_WORKERS / MYTH_WORKER_NUM / MYTH_DEF_STKSIZE / "
        "MYTH_DEF_GUARDSIZE / MYTH_BIND_WORKERS / MYTH_CHILD_FIRST / MYTH_CPU_LIST set to empty, whitespace, signs, letters, "
        "trailing junk, control characters incl. newline, zero, negatives; oracle: exit 0, 'OK', effective worker count and "
        "stack size equal the documented fallback (or the numeric prefix atoi accepts when it is positive and usable). "
        "(c) h_cpulist: unit harness on myth_parse_cpu_list with grammar-generated and mutated strings against a reference "
        "parser. (d) h_firstuse, one process per public entry point (31 of them: self, mutex, cond signal/broadcast, barrier, once, keys, "
        "yield, sleeps, felock, join counter, cancel state, spin, wsapi_rand, create ...): that entry point is the FIRST call into the "
        "library; it must return, exactly one initialisation runs (by it or by the following create), worker count and OS-thread "
        "count are the requested ones, fini leaves nothing behind. Non-trivial = an init case with >=2 cycles or a race, an env case with at least one malformed variable, or a "
        "cpulist run; distinct = distinct case descriptors.")

NCPU = os.cpu_count() or 16
DEF_STK = 131072


def atoi(s):
    m = re.match(r"[ \t\n\v\f\r]*([+-]?\d+)", s)
    if not m:
        return 0
    v = int(m.group(1))
    return max(-2**31, min(2**31 - 1, v))


MALFORMED = ["", " ", "\t", "abc", "-", "+", "--1", "0", "-1", "-0", "-99999", "+0", "0x10", "1e3x", "x12", " -5", "\n", "0\n",
             "--", "nan", "\x01", "\x7f", "  ", "1.5e", "০", "-2147483648", "zero"]


def gen_env(r):
    """-> (env dict, expected nw set, expected stack set, descriptor, malformed?)"""
    env = {}
    desc = []
    mal = False
    exp_nw = {NCPU}
    exp_stk = {DEF_STK}
    # worker count
    k = r.random()
    if k < 0.45:
        v = r.choice(MALFORMED)
        env["MYTH_NUM_WORKERS"] = v
        mal = True
        a = atoi(v)
        exp_nw = {a} if a > 0 else {NCPU}
        desc.append("NW=%r" % v)
    elif k < 0.65:
        n = r.choice([1, 2, 3, 5, 8, 17])
        tail = r.choice(["", "", " ", "abc", "\n", ".7", "-3", ",2"])
        v = r.choice(["", " ", "+", "\t"]) + str(n) + tail
        env["MYTH_NUM_WORKERS"] = v
        mal = mal or tail != ""
        exp_nw = {n}
        desc.append("NW=%r" % v)
    elif k < 0.8:
        v = r.choice(MALFORMED)
        env["MYTH_WORKER_NUM"] = v
        mal = True
        a = atoi(v)
        exp_nw = {a} if a > 0 else {NCPU}
        desc.append("WORKER_NUM=%r" % v)
    else:
        n = r.choice([1, 2, 4])
        env["MYTH_NUM_WORKERS"] = str(n)
        exp_nw = {n}
    # stack size
    k = r.random()
    small = [x for x in MALFORMED if atoi(x) <= 0]     # a numeric prefix of a few bytes is "well-formed but unusable": excluded
    if k < 0.5:
        v = r.choice(small)
        env["MYTH_DEF_STKSIZE"] = v
        mal = True
        desc.append("STK=%r" % v)
    elif k < 0.65:
        n = r.choice([65536, 262144, 1048576])
        tail = r.choice(["", "k", " ", "\n", "abc"])
        env["MYTH_DEF_STKSIZE"] = str(n) + tail
        exp_stk = {n}
        mal = mal or tail != ""
        desc.append("STK=%r" % (str(n) + tail))
    if r.random() < 0.4:
        v = r.choice(small)
        env["MYTH_DEF_GUARDSIZE"] = v
        mal = True
        desc.append("GUARD=%r" % v)
    # binding and cpu list
    k = r.random()
    if k < 0.5:
        v = r.choice(MALFORMED + ["1", "1", "2", "1x"])
        env["MYTH_BIND_WORKERS"] = v
        mal = mal or v in MALFORMED
        desc.append("BIND=%r" % v)
    else:
        env["MYTH_BIND_WORKERS"] = "0"
    if r.random() < 0.6:
        v = r.choice(["", " ", "\n", "0,1\n", "0-", "-", "a", "0,,1", "0-3:", "1-2-3", "0 1", "0-4:0", ",", "0,", "3-1", "x,y", "0;1",
                      "0-15", "0,1,2", "0-16:2", "\x01", "0-99999", "99999"])
        env["MYTH_CPU_LIST"] = v
        mal = True
        desc.append("CPULIST=%r" % v)
    if r.random() < 0.3:
        v = r.choice(MALFORMED + ["1", "0"])
        env["MYTH_CHILD_FIRST"] = v
        desc.append("CHILD_FIRST=%r" % v)
    return env, exp_nw, exp_stk, " ".join(desc), mal


def run(b, tier, seed, t0):
    r = core.rng(seed, "c15", tier)
    lib0 = b.lib("h0")
    liba = b.lib("asan")
    ex_init = {"h0": b.harness("h_init.c", lib0), "asan": b.harness("h_init.c", liba)}
    ex_env = {"h0": b.harness("h_env.c", lib0), "asan": b.harness("h_env.c", liba)}
    ex_cpu = b.harness("h_cpulist.c", liba, extra=core.BASE_DEFS + ["-DMYTH_WRAP=MYTH_WRAP_VANILLA"])
    cases = []
    n_init = 36 if tier == "quick" else 400
    n_env = 260 if tier == "quick" else 3000
    for i in range(n_init):
        v = r.choice(["h0", "h0", "asan"])
        racers = r.choice([0, 0, 1, 3, 8])
        cycles = r.choice([3, 5, 8]) if tier == "quick" else r.choice([5, 20, 60, 200])
        maxw = r.choice([4, 16, 64]) if cycles <= 20 else 16
        via = r.choice(["mix", "attr", "ex", "env"]) if not racers else "attr"
        env = {"VERIF_SEED": seed, "MYTH_VERIF_WATCHDOG": 0, "MYTH_NUM_WORKERS": None}
        if v == "asan":
            env.update(core.ASAN_ENV)
        env = {k: vv for k, vv in env.items() if vv is not None}
        bind = 1 if (not racers and i % 3 == 0) else 0
        if bind:
            maxw = min(maxw, 16)
        cases.append(Case([ex_init[v], "seed=%d" % (seed * 100129 + i), "cycles=%d" % cycles, "maxw=%d" % maxw, "racers=%d" % racers, "via=%s" % via, "bind=%d" % bind],
                          env=env, timeout=300, weight=min(maxw, 8), tag="init:%s:c%d:w%d:r%d:%s:%d" % (v, cycles, maxw, racers, via, i),
                          meta={"kind": "init", "desc": "c%dw%dr%d%s%s" % (cycles, maxw, racers, via, "b" if bind else ""), "variant": v, "nontrivial": cycles >= 2 or racers > 0}))
    for i in range(n_env):
        v = r.choice(["h0", "asan"])
        env, exp_nw, exp_stk, desc, mal = gen_env(r)
        env["VERIF_SEED"] = seed
        env["MYTH_VERIF_WATCHDOG"] = 0
        if v == "asan":
            env.update(core.ASAN_ENV)
        c = Case([ex_env[v]], env=env, timeout=120, weight=2, tag="env:%s:%d:%s" % (v, i, desc[:80]),
                 meta={"kind": "env", "desc": desc, "variant": v, "exp_nw": sorted(exp_nw), "exp_stk": sorted(exp_stk), "nontrivial": mal})
        cases.append(c)
    for i in range(4 if tier == "quick" else 40):
        env = {"VERIF_SEED": seed, "MYTH_VERIF_WATCHDOG": 0}
        env.update(core.ASAN_ENV)
        cases.append(Case([ex_cpu, "seed=%d" % (seed * 100151 + i), "cases=%d" % (20000 if tier == "quick" else 200000)], env=env, timeout=300,
                          weight=1, tag="cpulist:%d" % i, meta={"kind": "cpulist", "desc": "cpulist%d" % i, "variant": "asan", "nontrivial": True}))
    # (d) first use: every public entry point as the very first call into the library
    ex_fu = {"h0": b.harness("h_firstuse.c", lib0), "asan": b.harness("h_firstuse.c", liba)}
    NFU = 31
    for fn in range(NFU):
        for v in (["h0", "asan"] if tier == "thorough" or fn % 2 == 0 else ["h0"]):
            nwf = r.choice([1, 2, 3, 5, 8])
            env = {"VERIF_SEED": seed, "MYTH_VERIF_WATCHDOG": 0}
            if v == "asan":
                env.update(core.ASAN_ENV)
            cases.append(Case([ex_fu[v], "fn=%d" % fn, "workers=%d" % nwf], env=env, timeout=120, weight=2,
                              tag="firstuse:%s:fn%d:w%d" % (v, fn, nwf),
                              meta={"kind": "firstuse", "desc": "fn%d" % fn, "variant": v, "nontrivial": True}))
    core.run_cases(cases)
    extra = []
    descs = set()
    tot = {"init": {}, "env": {}, "cpulist": {}, "firstuse": {}}
    for c in cases:
        if c.skipped:
            continue
        st = core.classify(c)[0]
        if c.meta["kind"] == "env" and st == "ok":
            m = re.search(r"^OK nw=(\d+) stk=(\d+)$", c.out, re.M)
            if not m:
                c.viol = ("env:no-ok-line", "program exited 0 without printing its OK line (%s)" % c.meta["desc"])
            else:
                nw, stk = int(m.group(1)), int(m.group(2))
                if nw not in c.meta["exp_nw"]:
                    c.viol = ("env:wrong-worker-count", "effective workers %d, expected one of %s for %s" % (nw, c.meta["exp_nw"], c.meta["desc"]))
                elif stk not in c.meta["exp_stk"]:
                    c.viol = ("env:wrong-stack-size", "effective default stack %d, expected one of %s for %s" % (stk, c.meta["exp_stk"], c.meta["desc"]))
        elif c.meta["kind"] == "env" and st == "violation" and not c.viol:
            # name the variable class in the key so that different malformed inputs are different findings
            k, d = core.classify(c)[1:]
            which = []
            for name, short in (("MYTH_DEF_STKSIZE", "MYTH_DEF_STKSIZE"), ("MYTH_CPU_LIST", "MYTH_CPU_LIST"), ("MYTH_NUM_WORKERS", "MYTH_NUM_WORKERS"),
                                ("MYTH_DEF_GUARDSIZE", "MYTH_DEF_GUARDSIZE"), ("MYTH_BIND_WORKERS", "MYTH_BIND_WORKERS")):
                if name in c.env:
                    which.append(short)
            c.viol = ("env:%s:[%s]" % (k, ",".join(which)), "%s | env: %s" % (d, c.meta["desc"]))
        if c.vsum and c.meta.get("nontrivial"):
            descs.add(c.meta["kind"] + ":" + c.meta["desc"])
        if c.vsum:
            for k, vv in c.vsum.get("h", {}).items():
                if isinstance(vv, (int, float)):
                    t = tot[c.meta["kind"]]
                    t[k] = t.get(k, 0) + vv
    samples = core.collect_samples([c for c in cases if c.meta["kind"] != "env"], 3)
    samples += [{"case": c.tag, "env": {k: v for k, v in c.env.items() if k.startswith("MYTH_") and not k.startswith("MYTH_VERIF")}, "stdout": (c.out.splitlines() or [""])[0]}
                for c in cases if c.meta["kind"] == "env"][:4]
    cov = {"evaluations": len(cases), "distinct_nontrivial": len(descs), "rule": RULE, "samples": samples,
           "init_totals": tot["init"], "cpulist_totals": tot["cpulist"], "firstuse_totals": tot["firstuse"],
           "env_cases": sum(1 for c in cases if c.meta["kind"] == "env"),
           "env_cases_with_malformed_values": sum(1 for c in cases if c.meta["kind"] == "env" and c.meta["nontrivial"])}
    assumptions = ["well-formed but unusable requests (stack of a few bytes, thousands of workers, numbers >= 10^8) are excluded as the property says",
                   "a numeric prefix accepted by atoi (e.g. '8abc') counts as the documented behaviour when positive; otherwise the fallback is required",
                   "the CPU count fallback is os.cpu_count() of this host (%d)" % NCPU]
    return core.finish("C15", tier, seed, LEVEL, t0, cases, cov, assumptions)
