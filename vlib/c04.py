"""C04 -- mutex: mutual exclusion, no lost wake-up, non-blocking trylock"""
from . import generic

SPEC = {
    "tag": "mutex", "src": "h_mutex.c",
    "window": ["BQ_BEFORE_SWITCH", "MTX_LOCK_BEFORE_CAS", "MTX_LOCK_AFTER_SEAT", "MTX_TRYLOCK_BEFORE_CAS", "MTX_UNLOCK_BEFORE_CAS",
               "MTX_UNLOCK_AFTER_DEC", "MTX_CLEAR_BIT", "BQ_CB_BEFORE_ENQ", "BQ_CB_AFTER_ENQ", "WAKE1_AFTER_DEQ",
               "WAKE1_AFTER_CB", "MTX_LOCK_RESUMED"],
    "ampl": ["BQ_BEFORE_POP", "WAKE1_AFTER_PUSH", "YIELD_CB_AFTER_PUT", "CREATE_AFTER_PARENT_PUSH", "FIN_BEFORE_POP"],
    "required": ["MTX_LOCK_BLOCKS", "MTX_UNLOCK_WAKES", "WAKE1_WAITED", "SCHED_STEAL_OK"],
    "nontrivial_ids": ["MTX_LOCK_BLOCKS"],
    "n_quick": 150, "n_thorough": 3000,
    "variants": {"h0": 55, "h2": 35, "asan": 10},
    "rule": ("each evaluation is one process running `progs` programs of 2-200 threads doing a random mix of lock / "
             "bounded trylock / timedlock (deadline 1 h away, or 0-150 us away: a time-out is logged as a failed attempt and the caller then does not own the mutex) on 1-4 mutexes with an occupancy witness and a plain "
             "counter inside every critical section, plus a progress program (blocked locker must release its "
             "worker); failed trylocks are checked offline against all [lock call, unlock return] stamp intervals. "
             "Non-trivial = at least one locker actually blocked (seat reserved + enqueued); distinct = distinct "
             "(set of hook ids that fired, worker count, profile kind, thread/mutex shape)."),
}


def args(r, tier, v, nw):
    th = r.choice([2, 3, 4, 8, 16, 40, 100, 200])
    mx = r.choice([1, 1, 2, 4])
    progs = 4 if tier == "quick" else 8
    return ["progs=%d" % progs, "threads=%d" % th, "mutexes=%d" % mx], "t%dm%d" % (th, mx)


SPEC["args"] = args


def run(b, tier, seed, t0):
    return generic.run(b, tier, seed, t0, "C04", SPEC)
