"""C02 -- runnable threads are never lost or duplicated by the work-stealing queues

(a) unit harness on the real queue code with tiny capacities (sequential vs reference deque; concurrent
    owner + thieves with conservation / exactly-once at every hand-over)
(b) fence-order trace rule (runs inside every hooked execution, reported under its own keys)
(c) whole library: fork-join generator with all five yield options, a custom steal function using wsapi
    take (with a declining callback) / peek / pass, on a library built with a 256-entry run queue so that
    re-centring happens in real scheduling."""
from . import core, c01
from .core import Case

LEVEL = "exploration"
Q_IDS = ["Q_PUSH_BEFORE_SLOT", "Q_PUSH_BEFORE_TOP", "Q_POP_AFTER_DEC", "Q_POP_AFTER_FENCE", "Q_POP_SLOW_LOCKED",
         "Q_TAKE_LOCKED", "Q_TAKE_AFTER_INC", "Q_TAKE_AFTER_FENCE", "Q_TAKE_BEFORE_ROLLBACK", "Q_PUT_LOCKED",
         "Q_PASS_LOCKED", "WSAPI_TAKE_AFTER_INC", "WSAPI_TAKE_AFTER_FENCE", "WSAPI_PEEK_AFTER_INC"]
Q_COV = ["Q_POP_FAST", "Q_POP_SLOW_OK", "Q_POP_RESET", "Q_TAKE_OK", "Q_TAKE_ROLLBACK", "Q_PUSH_RECENTRE",
         "Q_PUT_RECENTRE", "Q_PASS_FULL", "WSAPI_TAKE_DECLINED", "WSAPI_TAKE_OK", "WSAPI_PEEK_FILLED"]
LIB_QSIZE = 256

RULE = ("unit: each evaluation is one process = (queue capacity in {4,8,16,64}, 1-6 thief OS threads, profile, seed): "
        "random sequential op sequences (push/pop/put/take/trypass/peek/wsapi take accept+decline/wsapi peek) checked "
        "op by op against a reference deque, then 1e5-4e5 owner operations against concurrent thieves over a pool of "
        "capacity-1 tickets whose state word is CAS-checked at every insert/obtain (duplicate = immediate violation; "
        "conservation + inserted==obtained per ticket at quiescence). library: fork-join programs with yields of all five "
        "kinds and a custom steal function (take / take+decline / peek / pass to a third worker) on a 256-entry run "
        "queue. Non-trivial unit run = thieves obtained tickets and both slow-path pop and take-rollback happened; "
        "non-trivial library run = >=2 workers and >=1 successful steal. distinct = distinct (hook ids that fired, "
        "capacity or worker count, profile kind).")


def unit_cases(b, tier, seed):
    libs = {v: b.lib(v) for v in ("h0", "h2")}
    exes = {v: b.harness("h_wsq_unit.c", libs[v], extra=core.BASE_DEFS + ["-DMYTH_WRAP=MYTH_WRAP_VANILLA"]) for v in libs}
    r = core.rng(seed, "c02u", tier)
    n = 72 if tier == "quick" else 1500
    cases = []
    for i in range(n):
        v = r.choice(["h0", "h2", "h2"])
        size = r.choice([4, 8, 16, 64])
        thieves = r.choice([1, 2, 3, 4, 6])
        pk = r.choices(["calm", "noise", "targeted"], weights=[25, 30, 45])[0]
        env = {"VERIF_SEED": seed, "MYTH_VERIF_RUNSEED": i, "MYTH_VERIF_WATCHDOG": 0}
        if pk == "noise":
            env["MYTH_VERIF_PROFILE"] = "noise%d" % r.choice([1, 2, 3])
        elif pk == "targeted":
            env["MYTH_VERIF_PROFILE"] = "targeted:%s,%s" % (r.choice(Q_IDS), r.choice(Q_IDS))
            env["MYTH_VERIF_TARGET_P"] = r.choice([8, 24, 64])
            env["MYTH_VERIF_TARGET_US"] = r.choice([30, 100])
            env["MYTH_VERIF_SLEEP_BUDGET_US"] = 3000000
        ops = r.choice([100000, 200000, 400000]) if pk != "targeted" else 60000
        args = ["seed=%d" % (seed * 100003 + i), "size=%d" % size, "thieves=%d" % thieves, "ops=%d" % ops,
                "seq_rounds=%d" % (150 if tier == "quick" else 400)]
        cases.append(Case([exes[v]] + args, env=env, timeout=300, weight=min(thieves + 1, 6),
                          tag="wsq_unit:%s:size%d:t%d:%s:%d" % (v, size, thieves, env.get("MYTH_VERIF_PROFILE", "calm"), i),
                          meta={"nw": size, "variant": v, "shape": "s%dt%d" % (size, thieves), "pk": pk, "kind": "unit"}))
    return cases


def lib_cases(b, tier, seed):
    defs = ("-DMYTH_VERIF_QUEUE_SIZE=%d" % LIB_QSIZE,)
    exes = c01.build_all(b, defs=defs, variants=("h0", "h2", "asan"))
    cases = c01.make_cases(exes, tier, seed + 7, harness_args="yields=1 steal=1", n_scale=0.6, tagp="wsq_lib")
    for c in cases:   # at most 120 live threads per program: never more runnable entries than the 256-entry queue holds
        c.cmd = [a if not a.startswith("maxth=") else "maxth=120" for a in c.cmd]
    r = core.rng(seed, "c02l", tier)
    for c in cases:
        c.meta["kind"] = "lib"
        if "targeted" in c.env.get("MYTH_VERIF_PROFILE", "") and r.random() < 0.6:
            c.env["MYTH_VERIF_PROFILE"] = "targeted:%s,%s" % (r.choice(Q_IDS), r.choice(c01.AMPL))
    return cases


def run(b, tier, seed, t0):
    cases = unit_cases(b, tier, seed) + lib_cases(b, tier, seed)
    core.run_cases(cases)
    hits = core.aggregate_hits(cases)
    interest = set(Q_IDS + Q_COV + c01.REQUIRED)
    sigs = set()
    unit_tot, lib_tot = {}, {}
    for c in cases:
        if not c.vsum:
            continue
        rh = c.vsum.get("rt", {}).get("hits", {})
        h = c.vsum.get("h", {})
        tgt = unit_tot if c.meta["kind"] == "unit" else lib_tot
        for k, v in h.items():
            if isinstance(v, (int, float)) and k not in ("capacity", "workers"):
                tgt[k] = tgt.get(k, 0) + v
        if c.meta["kind"] == "unit":
            if h.get("thief_takes_ok", 0) > 0 and rh.get("Q_POP_SLOW_OK", 0) > 0 and rh.get("Q_TAKE_ROLLBACK", 0) > 0:
                sigs.add(core.signature(c, interest))
        else:
            if c.meta.get("nw", 1) >= 2 and rh.get("SCHED_STEAL_OK", 0) > 0:
                sigs.add(core.signature(c, interest))
    required = Q_COV
    unreached = [k for k in required if not hits.get(k)]
    cov = {
        "evaluations": len(cases),
        "distinct_nontrivial": len(sigs),
        "rule": RULE,
        "samples": core.collect_samples(cases, 5) or [{"case": cases[0].tag}],
        "unit_totals": unit_tot,
        "library_totals": lib_tot,
        "queue_branches_hit": {k: hits.get(k, 0) for k in Q_COV},
        "queue_points_hit": {k: hits.get(k, 0) for k in Q_IDS},
        "unreached": unreached,
        "fence_order_rule": "checked online in every hooked execution of this run (%d processes); keys fence-order:pop / fence-order:take" % len(cases),
        "library_queue_capacity": LIB_QSIZE,
    }
    assumptions = [
        "executions on an x86-64 host sample x86-TSO store-buffer reorderings; they cannot be steered (DESIGN 8.1)",
        "the fence-order trace rule assumes USE_LOCK==0 and that myth_rwbarrier is a full fence; it detects the fence call being removed or displaced, not a weakened fence instruction",
        "unit harness drives the real queue code (src/myth_wsqueue_func.h, wsapi take/peek in libmyth) on a fake worker record; capacity is shrunk at run time exactly as MYTH_VERIF_QUEUE_SIZE does at build time",
    ]
    return core.finish("C02", tier, seed, LEVEL, t0, cases, cov, assumptions)
