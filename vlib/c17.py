"""C17 -- bulk fork-join helpers equal the sequential loop (C helpers + mtbb)"""
from . import core
from .core import Case

LEVEL = "exploration"
RULE = ("h_bulk: each evaluation = one process running hundreds of generated calls of myth_create_join_many_ex / "
        "_various_ex: n in {0,1,2,3,5,8,100,1000,10000}, every stride combination (argument/result/id/attr/function strides "
        "= element size or larger, function stride 0 for a shared slot), ids/results/attrs NULL or not, per-item attributes "
        "(stack size, creation order); arguments, results, ids live in exactly sized heap blocks (ASan) with guard bytes "
        "between slots; after the call count[i]==1 for every i, result slot i equals f_i(args+i*stride) of the sequential "
        "reference, id slots are filled, guards and argument slots intact, nothing happens for n=0. "
        "h_mtbb: task_group with 0-100 run() per wait(), captures 1-400 bytes, nested groups; parallel_for in its four forms "
        "over first in [-8,8], length in [-3,40] (empty, reversed, single), step 1-5, grain 1-7 with per-index counters "
        "compared with the sequential loop; a depth fence reports non-terminating recursion. Non-trivial = the run covered "
        "n>=100 (bulk) or empty ranges and >8 tasks per group (mtbb); distinct = distinct (harness, worker count, build, seed).")


def run(b, tier, seed, t0):
    r = core.rng(seed, "c17", tier)
    libs = {v: b.lib(v) for v in ("h0", "asan")}
    ex_bulk = {v: b.harness("h_bulk.c", libs[v]) for v in libs}
    ex_mtbb = {v: b.harness("h_mtbb.cc", libs[v], cxx=True, extra=["-std=gnu++11"]) for v in libs}
    cases = []
    n = 48 if tier == "quick" else 800
    for i in range(n):
        v = r.choice(["h0", "asan"])
        nw = r.choice([1, 2, 4, 8, 16])
        kind = "bulk" if i % 2 == 0 else "mtbb"
        env = {"MYTH_NUM_WORKERS": nw, "VERIF_SEED": seed, "MYTH_VERIF_RUNSEED": i}
        if r.random() < 0.5:
            env["MYTH_VERIF_PROFILE"] = "noise%d" % r.choice([1, 2])
        if v == "asan":
            env.update(core.ASAN_ENV)
        if kind == "bulk":
            cmd = [ex_bulk[v], "seed=%d" % (seed * 100183 + i), "cases=%d" % (150 if tier == "quick" else 400)]
        else:
            cmd = [ex_mtbb[v], "seed=%d" % (seed * 100183 + i), "cases=%d" % (400 if tier == "quick" else 1500)]
        cases.append(Case(cmd, env=env, timeout=300 if v == "h0" else 500, weight=min(nw, 8), tag="%s:%s:nw%d:%d" % (kind, v, nw, i),
                          meta={"kind": kind, "nw": nw, "variant": v, "i": i}))
    core.run_cases(cases)
    tot = {"bulk": {}, "mtbb": {}}
    sigs = set()
    for c in cases:
        if not c.vsum:
            continue
        h = c.vsum.get("h", {})
        t = tot[c.meta["kind"]]
        for k, vv in h.items():
            if isinstance(vv, (int, float)) and k != "workers":
                t[k] = t.get(k, 0) + vv
        if c.meta["kind"] == "bulk" and (h.get("cases_n100", 0) + h.get("cases_n1000", 0) + h.get("cases_n10000", 0)) > 0:
            sigs.add(("bulk", c.meta["nw"], c.meta["variant"], c.meta["i"]))
        if c.meta["kind"] == "mtbb" and h.get("parallel_for_empty_or_reversed_cases", 0) > 0 and h.get("task_group_cases", 0) > 0:
            sigs.add(("mtbb", c.meta["nw"], c.meta["variant"], c.meta["i"]))
    cov = {"evaluations": len(cases), "distinct_nontrivial": len(sigs), "rule": RULE,
           "samples": core.collect_samples(cases, 5) or [{"case": cases[0].tag}],
           "bulk_totals": tot["bulk"], "mtbb_totals": tot["mtbb"]}
    assumptions = ["per-item attributes are passed through, not checked for effect (the helper applies item a's attribute to the thread that handles a sub-range starting at a)",
                   "grain sizes are >= 1 (0 is not a valid grain size in the TBB interface the layer mimics)",
                   "mtbb frees captures > 256 bytes allocated with new[] through delete (alloc_dealloc_mismatch is off for ASan: real but outside the property's text)"]
    return core.finish("C17", tier, seed, LEVEL, t0, cases, cov, assumptions)
