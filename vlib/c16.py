"""C16 -- pthread programs behave the same on MassiveThreads as on the system pthreads
(translation validation by differential execution)"""
import os
from . import core
from .core import Case

LEVEL = "translation_validation"
RULE = ("one program = one seed of the parametrised interpreter h_pth_diff (plain POSIX threads): 1-3 rounds of five sections - "
        "spawn tree with/without attribute objects living on painted stack memory (default, custom stack size, detach state) "
        "+ join/detach/pthread_exit/self/equal; lock-protected counters on 4 dynamically and 4 statically initialised mutexes "
        "first used by 2-32 threads released together from a barrier (lock and trylock); bounded buffer over two condition "
        "variables (signal and broadcast); barrier phases with serial-thread count, spin lock and pthread_once; 24 keys with "
        "destructors (NULL ignored). Output is order-independent aggregates. Each program is run natively (reference: the "
        "same --wrap binary with MYTH_WRAP_PTHREAD=0, and the plain binary without preload) and redirected to MassiveThreads "
        "by both mechanisms (ld --wrap with 1/4/16 workers and delay profiles, LD_PRELOAD of libmyth-dl.so); stdout and exit "
        "status must be identical; a crash, deadlock or hang on the wrapped side is a disagreement.")


def run(b, tier, seed, t0):
    r = core.rng(seed, "c16", tier)
    lib_ld = b.lib("h0", wrap="ld")
    lib_ld_asan = b.lib("asan", wrap="ld")
    lib_dl = b.lib("h0", wrap="dl")
    ex_ld = b.plain("h_pth_diff.c", lib_ld, "h_pth_diff_ld", wrap_ld=True)
    ex_ld_asan = b.plain("h_pth_diff.c", lib_ld_asan, "h_pth_diff_ld_asan", wrap_ld=True)
    ex_plain = b.plain("h_pth_diff.c", lib_dl, "h_pth_diff_plain")
    nprog = 36 if tier == "quick" else 1200
    cases = []
    groups = {}
    for i in range(nprog):
        s = seed * 100207 + i
        mask = r.choice([0x3f, 0x3f, 0x01, 0x02, 0x02, 0x04, 0x08, 0x10, 0x03, 0x1c, 0x28, 0x20])
        args = [str(s), str(mask)]
        g = []
        # references
        g.append(Case([ex_ld] + args, env={"MYTH_WRAP_PTHREAD": "0"}, timeout=200, weight=4, tag="pth:ref-ld:%d" % i,
                      meta={"prog": i, "role": "ref", "mech": "ld"}))
        g.append(Case([ex_plain] + args, env={}, timeout=200, weight=4, tag="pth:ref-native:%d" % i,
                      meta={"prog": i, "role": "ref", "mech": "dl"}))
        # wrapped, ld
        for nw in ([1, 4, 16] if tier == "thorough" else [r.choice([1, 2]), r.choice([4, 16])]):
            env = {"MYTH_WRAP_PTHREAD": "1", "MYTH_NUM_WORKERS": nw, "VERIF_SEED": seed, "MYTH_VERIF_RUNSEED": i}
            pk = r.choice(["calm", "noise", "noise", "targeted"])
            if pk == "noise":
                env["MYTH_VERIF_PROFILE"] = "noise%d" % r.choice([1, 2])
            elif pk == "targeted":
                env["MYTH_VERIF_PROFILE"] = "targeted:" + r.choice(["MTX_STATIC_INIT_BEFORE_CAS,MTX_STATIC_INIT_CLAIMED", "MTX_STATIC_INIT_CLAIMED,WAKENS_AFTER_PUSH",
                                                                     "BQ_CB_AFTER_ENQ,BQ_BEFORE_POP", "FIN_LOCKED,JOIN_BEFORE_POP", "EP_CB_BEFORE_STATUS,CREATE_AFTER_PARENT_PUSH"])
                env["MYTH_VERIF_TARGET_P"] = r.choice([32, 128])
            exe = ex_ld
            if r.random() < 0.25:
                exe = ex_ld_asan
                env.update(core.ASAN_ENV)
            g.append(Case([exe] + args, env=env, timeout=300, weight=min(nw, 8), tag="pth:wrap-ld:nw%d:%s:%d" % (nw, pk, i),
                          meta={"prog": i, "role": "wrapped", "mech": "ld", "nw": nw}))
        # wrapped, preload
        nw = r.choice([1, 4, 16])
        g.append(Case([ex_plain] + args, env={"LD_PRELOAD": lib_dl["so"], "MYTH_WRAP_PTHREAD": "1", "MYTH_NUM_WORKERS": nw,
                                               "VERIF_SEED": seed, "MYTH_VERIF_RUNSEED": i},
                      timeout=300, weight=min(nw, 8), tag="pth:wrap-dl:nw%d:%d" % (nw, i),
                      meta={"prog": i, "role": "wrapped", "mech": "dl", "nw": nw}))
        groups[i] = g
        cases += g
    core.run_cases(cases)
    # differential comparison
    n_cmp = 0
    distinct_outputs = set()
    samples = []
    for i, g in groups.items():
        refs = {c.meta["mech"]: c for c in g if c.meta["role"] == "ref"}
        if any(c.skipped for c in g):
            continue
        ref_out = None
        for mech, c in refs.items():
            if c.rc != 0 or "done" not in c.out:
                c.viol = ("pth:reference-run-failed", "the native reference run itself failed (rc %s): harness problem" % c.rc)
            else:
                ref_out = c.out if ref_out is None else ref_out
        if refs["ld"].out != refs["dl"].out and not refs["ld"].viol and not refs["dl"].viol:
            refs["ld"].viol = ("pth:references-disagree", "the two native runs of program %d print different results: the program is not determinate" % i)
        for c in g:
            if c.meta["role"] != "wrapped":
                continue
            ref = refs[c.meta["mech"]]
            if ref.viol:
                continue
            n_cmp += 1
            st = core.classify(c)[0]
            if st != "ok":
                if not c.viol and not c.timed_out:
                    k = core.classify(c)[1]
                    c.viol = ("pth-diff:%s:%s" % (c.meta["mech"], k), "wrapped run of program %d failed where the native run succeeded" % i)
                continue
            wl = [l for l in c.out.splitlines() if not l.startswith(("VRT ", "VSUM "))]
            rl = [l for l in ref.out.splitlines()]
            if wl != rl:
                diff = [(a, bb) for a, bb in zip(wl + [""] * 10, rl + [""] * 10) if a != bb][:2]
                sec = (diff[0][1] or diff[0][0]).split(":")[0] if diff else "?"
                c.viol = ("pth-diff:%s:output:%s" % (c.meta["mech"], sec), "program %d: wrapped prints %r, native prints %r" % (i, diff[0][0] if diff else "", diff[0][1] if diff else ""))
        if ref_out:
            distinct_outputs.add(ref_out)
            if len(samples) < 3:
                samples.append({"program_seed": g[0].cmd[1], "sections_mask": g[0].cmd[2], "native_output": ref_out.splitlines()[:6]})
    cov = {"programs": len(groups), "disagreements_checked": n_cmp, "samples": samples or [{"note": "no program completed"}],
           "evaluations": len(cases), "distinct_nontrivial": len(distinct_outputs), "rule": RULE,
           "mechanisms": ["ld --wrap (static, -O0 and ASan+UBSan builds)", "LD_PRELOAD libmyth-dl.so"],
           "worker_counts": sorted(set(c.meta.get("nw", 0) for c in cases if c.meta["role"] == "wrapped"))}
    assumptions = ["the interpreter only uses the supported subset (no rwlocks, no timed condition waits, default-type mutexes)",
                   "destructors ignore NULL values, so the documented difference (MassiveThreads calls destructors with NULL) is not observable",
                   "determinacy of each generated program is checked by comparing two native runs"]
    return core.finish("C16", tier, seed, LEVEL, t0, cases, cov, assumptions)
