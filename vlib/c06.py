"""C06 -- barrier"""
from . import generic

SPEC = {
    "tag": "barrier", "src": "h_barrier.c",
    "window": ["BS_BEFORE_SWITCH", "BAR_BEFORE_CAS", "BAR_AFTER_CAS", "BAR_AFTER_RESET", "SS_PUSH_BEFORE_CAS", "SS_POP_BEFORE_CAS",
               "BS_CB_BEFORE_PUSH", "BS_CB_AFTER_PUSH", "WAKENS_AFTER_POP", "WAKENS_BEFORE_PUSH"],
    "ampl": ["BS_BEFORE_POP", "WAKENS_AFTER_PUSH", "YIELD_CB_AFTER_PUT", "FIN_BEFORE_POP", "CREATE_AFTER_PARENT_PUSH"],
    "required": ["BAR_LAST", "WAKENS_WAITED", "SCHED_STEAL_OK", "WAKENS_AFTER_POP"],
    "nontrivial_ids": ["WAKENS_AFTER_POP"],
    "n_quick": 90, "n_thorough": 1200,
    "variants": {"h0": 55, "h2": 35, "asan": 10},
    "rule": ("each evaluation is one process running `progs` barrier programs (N in {1,2,3,4,7,16,64,200,1200,3000}, up to "
             "thousands of consecutive rounds by the same participants, stragglers mixed with racers, threads >> "
             "workers); each participant counts its arrival before the wait and checks arrived[k]==N, "
             "arrived[k+1]<=N and the serial indicator right after it. Non-trivial = at least one sleeper was popped "
             "and resumed; distinct = distinct (set of hook ids that fired, worker count, profile kind, N)."),
}


def args(r, tier, v, nw):
    n = r.choice([0, 0, 1, 2, 3, 4, 7, 16, 64, 200, 1200, 3000])
    progs = 3 if tier == "quick" else 8
    return ["progs=%d" % progs, "n=%d" % n], "n%d" % n


SPEC["args"] = args


def run(b, tier, seed, t0):
    return generic.run(b, tier, seed, t0, "C06", SPEC)
