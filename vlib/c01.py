"""C01 -- every created thread runs exactly once and join delivers its result"""
from . import core
from .core import Case

WINDOW = ["JOIN_BEFORE_SWITCH", "JOIN_LOCKED", "JOIN_CB_BEFORE_SET", "JOIN_CB_AFTER_UNLOCK", "FIN_BEFORE_LOCK", "FIN_LOCKED",
          "EP_CB_BEFORE_STATUS", "EP_CB_BEFORE_STACKREL", "EP_CB_AFTER_STATUS", "CREATE1_ENTER",
          "YIELD_CB_BEFORE_PUT", "Q_POP_AFTER_DEC", "Q_TAKE_AFTER_INC"]
AMPL = ["CREATE_AFTER_PARENT_PUSH", "CREATE_PF_AFTER_PUSH", "JOIN_BEFORE_POP", "FIN_BEFORE_POP",
        "YIELD_CB_AFTER_PUT"]
REQUIRED = ["JOIN_FOUND_FINISHED", "JOIN_BLOCK_NEXT", "JOIN_BLOCK_SCHED", "FIN_SAW_WAITER", "FIN_NEXT",
            "FIN_SCHED", "SCHED_STEAL_OK", "CREATE_PF_AFTER_PUSH"]
INTEREST = set(WINDOW + AMPL + REQUIRED + ["Q_POP_SLOW_OK", "Q_POP_RESET", "Q_TAKE_ROLLBACK", "Q_TAKE_OK",
                                           "JOIN_WAIT_FR2", "FIN_DETACHED"])

LEVEL = "exploration"
RULE = ("each evaluation is one process running `progs` seeded random spawn trees (fan-out<=fan, depth<=depth; "
        "creation mode default/create_ex/attr(stack,parent-first,child-first,heap)/NULL id; join order "
        "fwd/rev/random/delegated-to-sibling; return or myth_exit from 0-3 frames) on nw workers under one delay "
        "profile (calm / noise / targeted = one window point + one amplifier point stretched) and one build "
        "(h0=-O0, h2=-O2, asan). A run is non-trivial if it had >=2 workers and at least one successful steal; "
        "distinct = distinct (set of hook ids that fired, worker count, profile kind, program shape parameters).")


def make_cases(exes, tier, seed, harness_args="", n_scale=1.0, tagp="fj"):
    r = core.rng(seed, "c01", tier)
    if tier == "quick":
        n = int(110 * n_scale)
        progs, maxth = 12, 250
    else:
        n = int(2400 * n_scale)
        progs, maxth = 25, 400
    cases = []
    nws = [1, 2, 3, 4, 8, 16] if tier == "quick" else [1, 2, 3, 4, 6, 8, 12, 16, 24, 32]
    for i in range(n):
        v = r.choices(["h0", "h2", "asan"], weights=[55, 25, 20])[0]
        nw = r.choice(nws)
        pk = r.choices(["calm", "noise", "targeted"], weights=[20, 35, 45])[0]
        env = {"MYTH_NUM_WORKERS": nw, "VERIF_SEED": seed, "MYTH_VERIF_RUNSEED": i}
        if pk == "noise":
            env["MYTH_VERIF_PROFILE"] = "noise%d" % r.choice([1, 2, 3])
        elif pk == "targeted":
            env["MYTH_VERIF_PROFILE"] = "targeted:%s,%s" % (r.choice(WINDOW), r.choice(AMPL))
            env["MYTH_VERIF_TARGET_P"] = r.choice([24, 64, 128])
        if r.random() < 0.3:
            env["MYTH_CHILD_FIRST"] = "0"
        if r.random() < 0.3:
            env["MYTH_VERIF_PAIRS"] = "1"
        depth = r.choice([2, 3, 4, 5, 6])
        fan = r.choice([1, 2, 3, 4, 6, 8])
        minstack = 65536 if v == "asan" else r.choice([16384, 16384, 32768, 65536])
        if v == "asan":
            env.update(core.ASAN_ENV)
        args = ["seed=%d" % (seed * 100003 + i), "progs=%d" % progs, "maxth=%d" % maxth, "depth=%d" % depth,
                "fan=%d" % fan, "minstack=%d" % minstack] + harness_args.split()
        cases.append(Case([exes[v]] + args, env=env, timeout=240 if v != "asan" else 400, weight=min(nw, 8),
                          tag="%s:%s:nw%d:%s:%d" % (tagp, v, nw, env.get("MYTH_VERIF_PROFILE", "calm"), i),
                          meta={"nw": nw, "variant": v, "shape": "d%df%d" % (depth, fan), "pk": pk}))
    return cases


def build_all(b, src="h_forkjoin.c", defs=(), variants=("h0", "h2", "asan")):
    exes = {}
    for v in variants:
        lib = b.lib(v, defs=defs)
        exes[v] = b.harness(src, lib)
    return exes


def summarize(cases, required=REQUIRED, interest=INTEREST):
    hits = core.aggregate_hits(cases)
    h = core.aggregate_h(cases)
    sigs = set()
    pairs = 0
    for c in cases:
        if not c.vsum:
            continue
        rt = c.vsum.get("rt", {})
        pairs = max(pairs, rt.get("pairs", 0) or 0)
        if c.meta.get("nw", 1) >= 2 and rt.get("hits", {}).get("SCHED_STEAL_OK", 0) > 0:
            sigs.add(core.signature(c, interest))
    unreached = [k for k in required if not hits.get(k)]
    return hits, h, sigs, unreached, pairs


def run(b, tier, seed, t0):
    exes = build_all(b)
    cases = make_cases(exes, tier, seed)
    core.run_cases(cases)
    hits, h, sigs, unreached, pairs = summarize(cases)
    cov = {
        "evaluations": len(cases),
        "distinct_nontrivial": len(sigs),
        "rule": RULE,
        "samples": core.collect_samples(cases) or [{"case": cases[0].tag, "cmd": cases[0].cmd}],
        "threads_created_and_joined": h.get("threads", 0),
        "programs": h.get("programs", 0),
        "creation_modes": {k: v for k, v in h.items() if k.startswith("mode_")},
        "termination_kinds": {k: v for k, v in h.items() if k.startswith("end_")},
        "join_orders": {k: v for k, v in h.items() if k.startswith("order_")},
        "parent_migrated_during_create": h.get("parent_migrated_during_create", 0),
        "rare_branches_hit": {k: hits.get(k, 0) for k in REQUIRED},
        "window_points_hit": {k: hits.get(k, 0) for k in WINDOW + AMPL},
        "unreached": unreached,
        "max_distinct_cross_worker_point_pairs_in_one_run": pairs,
        "builds": sorted(set(c.meta["variant"] for c in cases)),
        "worker_counts": sorted(set(c.meta["nw"] for c in cases)),
    }
    assumptions = [
        "x86-64 host: visibility failures needing a weaker memory model are not observable",
        "schedules are sampled (seeded delay injection at hook points + OS preemption), not enumerated",
        "deadlock is decided logically by the hook runtime's watchdog; wall-clock timeouts are re-run once and then reported as hang",
    ]
    return core.finish("C01", tier, seed, LEVEL, t0, cases, cov, assumptions)
