"""C18 -- DAG Recorder totals do not depend on how the DAG was contracted
   C19 -- DAG files are well formed and survive a dump / read / convert round trip
   (shared machinery: h_dr_sim produces recordings under a grid of contraction settings; the .stat
   reports are parsed here; dagcheck validates every .dag; dag2any --shrink converts)"""
import os, re
from . import core
from .core import Case

EDGE_TITLES = {"end-parent edges:": "end", "create-child edges:": "create", "create-cont edges:": "create_cont",
               "wait-cont edges:": "wait_cont", "other-cont edges:": "other_cont"}

RULE18 = ("one program = one seed of the serial multi-worker simulator (well-nested task/section grammar with 'other' intervals, "
          "depth<=6, fan-out<=6, 1-16 simulated workers, random task->worker assignment and migration at every runtime call, busy "
          "waits so that spans cross the contraction thresholds; every third program runs with par=1: each task is a real OS "
          "thread that holds a worker token while it talks to the recorder; every third with vt=1: the recorder's time stamps come "
          "from the harness through the guarded clock hook, every task has its own virtual clock, a child starts at its parent's "
          "creation time and a wait returns at the latest end of the children, so that intervals of different tasks overlap and the "
          "work of a collapsed subgraph exceeds its elapsed time exactly as in a parallel run, independently of machine load); each program is recorded under a grid of contraction settings "
          "(collapse_max in {0, 2000, 2^60}, uncollapse_min in {0, 20000, 2^60}, collapse_max_count in {0, 2, 20, 10^5}, "
          "(node_count_target, prune_threshold) in {(0,-), (10,5), (100,50)}); in every run the recorder's root totals (work, "
          "critical path, create/wait/end/other interval counts) are compared with totals the harness computes from the interval "
          "hooks and its own dependency structure, the .stat report (work, critical path, counts, edge totals by kind = "
          "materialised edges + counts kept in collapsed nodes) is parsed and compared with the same oracle, and counts must be "
          "equal across the settings of one program. Non-trivial = a recording with >= 10 creates in which the setting actually "
          "collapsed something (materialised nodes < uncontracted nodes) or the uncontracted baseline; distinct = distinct "
          "(program seed, setting).")
RULE19 = ("every .dag written by the C18 grid is parsed by an independent validator (file size, offsets, tree, edge grouping, "
          "string table), replayed by the library's chronological traverser with a counting callback (every leaf starts and ends "
          "exactly once, nothing running or ready at the end), read back and re-written (byte-identical apart from the two "
          "in-memory pointer fields of the string-table header), and converted by the real dag2any --shrink under several "
          "conversion-time contraction settings; the converted file passes the same validator and its totals (root node and "
          ".stat) equal the input's and the C18 oracle's; 1-300 distinct source-file names per recording. Non-trivial = a file "
          "with >= 20 nodes; distinct = distinct (program seed, record setting, conversion setting).")

BIG = str(1 << 60)


def settings(r, tier):
    grid = [
        ("none", {"DR_COLLAPSE_MAX": "0", "DR_UNCOLLAPSE_MIN": "0"}),
        ("default", {}),
        ("cmax-small", {"DR_COLLAPSE_MAX": "2000"}),
        ("umin-mid", {"DR_COLLAPSE_MAX": "0", "DR_UNCOLLAPSE_MIN": "20000"}),
        ("umin-huge", {"DR_UNCOLLAPSE_MIN": BIG}),
        ("count-2", {"DR_COLLAPSE_MAX_COUNT": "2"}),
        ("count-20", {"DR_COLLAPSE_MAX_COUNT": "20"}),
        ("count-1e5", {"DR_COLLAPSE_MAX_COUNT": "100000"}),
        ("prune-10-5", {"DR_NC": "10", "DR_PRUNE": "5", "DR_COLLAPSE_MAX": "0"}),
        ("prune-100-50", {"DR_NC": "100", "DR_PRUNE": "50", "DR_COLLAPSE_MAX": "0"}),
    ]
    if tier == "quick":
        return [grid[0], grid[1]] + r.sample(grid[2:], 4)
    return grid


def parse_stat(path):
    out = {"edges": {}}
    try:
        lines = open(path).read().splitlines()
    except OSError:
        return None
    cur = None
    for l in lines:
        m = re.match(r"^(create_task|wait_tasks|end_task|work \(T1\)|critical_path \(T_inf\))\s*=\s*(\d+)", l)
        if m:
            out[m.group(1).split()[0]] = int(m.group(2))
            cur = None
            continue
        if l.strip() in EDGE_TITLES:
            cur = EDGE_TITLES[l.strip()]
            out["edges"][cur] = 0
            continue
        if cur and re.match(r"^( -?\d+)+$", l):
            out["edges"][cur] += sum(int(x) for x in l.split())
        elif cur and l.strip() and not l.startswith(" "):
            cur = None
    return out


def run(b, tier, seed, t0, prop="C18"):
    r = core.rng(seed, "c18", tier)
    dr = b.drlib("asan")
    sim = b.drharness("h_dr_sim.c", dr)
    chk = b.drharness("dagcheck.c", dr)
    outdir = os.path.join(dr["dir"], "out")
    os.makedirs(outdir, exist_ok=True)
    nprog = (40 if prop == "C18" else 24) if tier == "quick" else (3000 if prop == "C18" else 1200)
    env0 = dict(core.ASAN_ENV)
    env0["MYTH_VERIF_WATCHDOG"] = 0
    sims = []
    for i in range(nprog):
        s = seed * 100237 + i
        depth = r.choice([2, 3, 4, 5, 6])
        fan = r.choice([2, 3, 4, 6])
        workers = r.choice([1, 2, 4, 8, 16])
        files = r.choice([1, 3, 20, 300])
        par = 1 if i % 3 == 1 else 0
        vt = 1 if i % 3 == 2 else 0
        if par:
            depth, fan, workers = min(depth, 4), min(fan, 4), max(workers, 2)
        for name, envs in settings(r, tier):
            prefix = os.path.join(outdir, "p%d-%s" % (i, name))
            env = dict(env0)
            env.update(envs)
            sims.append(Case([sim, "seed=%d" % s, "prefix=%s" % prefix, "depth=%d" % depth, "fan=%d" % fan, "workers=%d" % workers,
                              "files=%d" % files, "maxspin=%d" % r.choice([2000, 20000, 100000]), "par=%d" % par, "vt=%d" % vt],
                             env=env, timeout=200, weight=1, tag="drsim:p%d:%s" % (i, name),
                             meta={"prog": i, "setting": name, "prefix": prefix, "kind": "sim"}))
    core.run_cases(sims)
    # ---- C18: stat report vs oracle, counts equal across settings
    byprog = {}
    sigs18 = set()
    for c in sims:
        if c.skipped or not c.vsum or core.classify(c)[0] != "ok":
            continue
        h = c.vsum["h"]
        st = parse_stat(c.meta["prefix"] + ".stat")
        if st is None:
            c.viol = ("dr:no-stat-report", "no .stat file was written for %s" % c.tag)
            continue
        checks = [("work", st.get("work"), h["T1"]), ("critical-path", st.get("critical_path"), h["Tinf"]),
                  ("count-create", st.get("create_task"), h["creates"]), ("count-wait", st.get("wait_tasks"), h["waits"]),
                  ("count-end", st.get("end_task"), h["ends"])]
        for k in ("end", "create", "create_cont", "wait_cont", "other_cont"):
            checks.append(("%s-edges" % k.replace("_", "-"), st["edges"].get(k), h["edges_" + k]))
        for what, got, want in checks:
            if got != want and not c.viol:
                c.viol = ("dr:%s" % what, "setting %s: the .stat report says %s = %s, the uncontracted interval sequence gives %s" % (c.meta["setting"], what, got, want))
        counts = tuple(h[k] for k in ("creates", "waits", "ends", "others", "sections"))
        byprog.setdefault(c.meta["prog"], {})[c.meta["setting"]] = (counts, h["materialized_nodes"], c)
    for i, d in byprog.items():
        base = d.get("none")
        for name, (counts, nodes, c) in d.items():
            if base and counts != base[0] and not c.viol:
                c.viol = ("dr:harness-not-deterministic", "program %d has different structure under setting %s" % (i, name))
            if counts[0] >= 10 and (name == "none" or (base and nodes < base[1])):
                sigs18.add((i, name))
    cases = list(sims)
    sigs19 = set()
    tot19 = {"files": 0, "nodes": 0, "edges": 0, "replay_events": 0, "roundtrips": 0, "converted": 0, "max_strings": 0}
    if prop == "C19":
        # ---- validate every dump, round trip, convert
        chks = []
        for c in sims:
            if c.skipped or not c.vsum or core.classify(c)[0] != "ok":
                continue
            pre = c.meta["prefix"]
            chks.append(Case([chk, "file=%s.dag" % pre, "rt_prefix=%s-rt" % pre], env=dict(env0), timeout=200, weight=1,
                             tag="dagcheck:p%d:%s" % (c.meta["prog"], c.meta["setting"]),
                             meta={"prog": c.meta["prog"], "setting": c.meta["setting"], "conv": "-", "sim": c, "kind": "check"}))
        core.run_cases(chks)
        convs = []
        conv_settings = [("shrink-default", {}), ("shrink-count-20", {"DR_COLLAPSE_MAX_COUNT": "20"}), ("shrink-umin", {"DR_UNCOLLAPSE_MIN": "20000", "DR_COLLAPSE_MAX": "0"}),
                         ("shrink-prune", {"DR_NC": "10", "DR_PRUNE": "5", "DR_COLLAPSE_MAX": "0"})]
        for c in chks:
            if c.skipped or core.classify(c)[0] != "ok":
                continue
            pre = c.meta["sim"].meta["prefix"]
            for cname, cenv in (conv_settings if tier == "thorough" else r.sample(conv_settings, 2)):
                env = dict(env0)
                env.update(cenv)
                out = "%s-%s" % (pre, cname)
                convs.append(Case([dr["dag2any"], "--shrink", "--stat", "--nosqlite", "-o", out, pre + ".dag"], env=env, timeout=200, weight=1,
                                  tag="dag2any:p%d:%s:%s" % (c.meta["prog"], c.meta["setting"], cname),
                                  meta={"prog": c.meta["prog"], "setting": c.meta["setting"], "conv": cname, "out": out, "src": c, "kind": "conv"}))
        core.run_cases(convs)
        chk2 = []
        for c in convs:
            if c.skipped or core.classify(c)[0] != "ok":
                continue
            chk2.append(Case([chk, "file=%s.dag" % c.meta["out"], "rt_prefix=%s-rt" % c.meta["out"]], env=dict(env0), timeout=200, weight=1,
                             tag="dagcheck-converted:p%d:%s:%s" % (c.meta["prog"], c.meta["setting"], c.meta["conv"]),
                             meta={"prog": c.meta["prog"], "setting": c.meta["setting"], "conv": c.meta["conv"], "convcase": c, "kind": "check2"}))
        core.run_cases(chk2)
        keys = ("T1", "Tinf", "creates", "waits", "ends", "others", "edges_end", "edges_create", "edges_create_cont", "edges_wait_cont", "edges_other_cont")
        for c in chks + chk2:
            if c.skipped or not c.vsum or core.classify(c)[0] != "ok":
                continue
            h = c.vsum["h"]
            if c.meta["kind"] == "check":
                oracle = c.meta["sim"].vsum["h"]
            else:
                oracle = c.meta["convcase"].meta["src"].meta["sim"].vsum["h"]
                st = parse_stat(c.meta["convcase"].meta["out"] + ".stat")
                if st is None:
                    c.viol = ("dag:convert-no-stat", "dag2any wrote no .stat for %s" % c.tag)
                else:
                    for what, got, want in (("work", st.get("work"), oracle["T1"]), ("critical-path", st.get("critical_path"), oracle["Tinf"]),
                                            ("count-create", st.get("create_task"), oracle["creates"])):
                        if got != want and not c.viol:
                            c.viol = ("dag:convert-changed-%s" % what, "after %s the .stat says %s = %s, the recording had %s" % (c.meta["conv"], what, got, want))
            for k in keys:
                if h.get(k) != oracle.get(k) and not c.viol:
                    c.viol = ("dag:%stotals-%s" % ("convert-changed-" if c.meta["kind"] == "check2" else "file-", k),
                              "%s: the file's totals give %s = %s, the recording had %s" % (c.tag, k, h.get(k), oracle.get(k)))
            tot19["files"] += 1
            tot19["nodes"] += h.get("nodes", 0)
            tot19["edges"] += h.get("edges", 0)
            tot19["replay_events"] += h.get("replay_events", 0)
            tot19["roundtrips"] += h.get("roundtrip_identical", 0)
            tot19["max_strings"] = max(tot19["max_strings"], h.get("strings", 0))
            if c.meta["kind"] == "check2":
                tot19["converted"] += 1
            if h.get("nodes", 0) >= 20:
                sigs19.add((c.meta["prog"], c.meta["setting"], c.meta["conv"]))
        cases = sims + chks + convs + chk2
    tot18 = {}
    for c in sims:
        for k, v in ((c.vsum or {}).get("h", {}) or {}).items():
            if isinstance(v, (int, float)):
                tot18[k] = tot18.get(k, 0) + v
    if prop == "C18":
        cov = {"evaluations": len(sims), "distinct_nontrivial": len(sigs18), "rule": RULE18,
               "samples": core.collect_samples(sims, 3) or [{"case": sims[0].tag}],
               "programs": nprog, "settings": sorted(set(c.meta["setting"] for c in sims)),
               "totals_over_all_recordings": {k: tot18.get(k, 0) for k in ("creates", "waits", "ends", "others", "sections", "intervals", "materialized_nodes", "parallel_os_threads", "work_exceeds_elapsed_time", "virtual_clock_reads")}}
        level = "exploration"
    else:
        cov = {"evaluations": len(cases), "distinct_nontrivial": len(sigs19), "rule": RULE19,
               "samples": core.collect_samples([c for c in cases if c.meta["kind"] != "sim"], 3) or [{"case": cases[0].tag}],
               "files_validated": tot19}
        level = "exploration"
    assumptions = ["the simulator is serial (child-first): it covers every accumulation/contraction path the recorder takes for a given interval structure; real multi-worker timing only changes clock values",
                   "UBSan's bounds and alignment checks are off for the profiler (intra-struct index past a 4-element array and the 45-byte file header; see DESIGN 3.1)",
                   "chk_level stays at its default 0, as users run it"]
    return core.finish(prop, tier, seed, level, t0, cases, cov, assumptions)
