"""C05 -- condition variables: atomic release-and-wait, signal and broadcast reach waiters"""
from . import generic

SPEC = {
    "tag": "cond", "src": "h_cond.c",
    "window": ["SQ_ENQ_LOCKED", "SQ_DEQ_LOCKED", "SQ_DEQ_LOCKED", "BQ_BEFORE_SWITCH", "BQ_CB_BEFORE_ENQ", "BQ_CB_AFTER_ENQ", "BQ_CB_AFTER_UNLOCK", "WAKEANY_AFTER_DEQ", "COND_WAIT_RESUMED",
               "MTX_UNLOCK_AFTER_DEC", "MTX_CLEAR_BIT", "WAKE1_AFTER_DEQ", "MTX_LOCK_AFTER_SEAT"],
    "ampl": ["BQ_BEFORE_POP", "WAKEANY_AFTER_PUSH", "WAKE1_AFTER_PUSH", "YIELD_CB_AFTER_PUT", "FIN_BEFORE_POP"],
    "required": ["WAKEANY_AFTER_DEQ", "WAKEANY_EMPTY", "COND_WAIT_RESUMED", "SCHED_STEAL_OK", "MTX_LOCK_BLOCKS"],
    "nontrivial_ids": ["COND_WAIT_RESUMED"],
    "n_quick": 150, "n_thorough": 3000,
    "variants": {"h0": 55, "h2": 35, "asan": 10},
    "rule": ("each evaluation is one process running `progs` programs drawn from five patterns (bounded buffer with "
             "unique item ids, per-thread-condition turnstile, broadcast gate re-armed for many rounds, ping-pong) "
             "and token release: S signalers do lock; publish; unlock; signal at the same moment against W parked waiters) whose completion and final counters are determinate only if no wake-up is lost; on every wait return "
             "the harness checks the holder witness and that a signal/broadcast was issued after the wait began. "
             "Non-trivial = at least one waiter actually blocked and was resumed; distinct = distinct (set of hook "
             "ids that fired, worker count, profile kind, pattern)."),
}


def args(r, tier, v, nw):
    pat = r.choice([0, 0, 1, 2, 3, 4, 5, 5])
    progs = 5 if tier == "quick" else 10
    return ["progs=%d" % progs, "pattern=%d" % pat], "p%d" % pat


SPEC["args"] = args


def run(b, tier, seed, t0):
    return generic.run(b, tier, seed, t0, "C05", SPEC)
