/*
 * h_dr_sim --- C18 (and producer of the DAG files C19 validates):
 * a serial simulator of multi-worker executions drives the DAG Recorder's
 * public entry points (the dr_*__ functions take the worker id explicitly) for
 * a generated well-nested program
 *     task ::= section* end ; section ::= (section|create)* wait   (+ 'other' intervals)
 * with an arbitrary task->worker assignment and busy waits of random length.
 * The user hooks in dr_options.hooks receive every interval as it closes; from
 * those (start,end) pairs and the program structure the harness computes its own
 * totals: T1 = sum of interval lengths, T_inf = longest dependency chain, counts
 * of create/wait/end/other intervals and of edges by kind.  They must equal what
 * the recorder holds in its root node after dr_stop, whatever contraction options
 * are in force (set through the documented DR_* environment variables).
 * args: seed= prefix=<output file prefix> depth= fan= workers= maxspin=
 */
#ifndef _GNU_SOURCE
#define _GNU_SOURCE
#endif
#define DAG_RECORDER 2
#include <dag_recorder_impl.h>
#include "hk.h"

static hk_rng_t R;
static int g_workers, g_max_depth, g_fan;
static unsigned g_maxspin;

/* oracle, fed by the hooks */
static unsigned long long g_last_dur, g_T1;
static long g_n_create, g_n_wait, g_n_end, g_n_other, g_n_section, g_hook_calls;
static int g_files_used;

static int on_interval(dr_dag_node * n) {
  g_last_dur = n->info.end.t - n->info.start.t;
  HK_CHECK(n->info.end.t >= n->info.start.t, "dr:interval-negative", "an interval ends before it starts");
  g_T1 += g_last_dur;
  g_hook_calls++;
  return 0;
}

static void spin(void) {
  unsigned n = (unsigned)hk_below(&R, 6) == 0 ? (unsigned)hk_below(&R, g_maxspin + 1) : (unsigned)hk_below(&R, 200);
  hk_work(n);
}
static int pick_worker(int cur) {
  /* a task may come back on another worker after any runtime call */
  return hk_below(&R, 3) == 0 ? (int)hk_below(&R, (uint64_t)g_workers) : cur;
}
static const char * pick_file(void) {
  static char names[300][24];
  int i = (int)hk_below(&R, (uint64_t)g_files_used);
  if (!names[i][0]) snprintf(names[i], sizeof(names[i]), "src_%03d.c", i);
  return names[i];
}

typedef unsigned long long ull;
static ull run_task(dr_dag_node * created_by, int * worker, int depth, int is_root);

/* returns the section's critical path; *serial_out is not needed by callers */
static ull run_section(int * worker, int depth, int nested, int explicit_begin) {
  ull serial = 0, best = 0;
  if (nested || explicit_begin) dr_begin_section__(*worker);
  g_n_section++;
  int items = (int)hk_below(&R, (uint64_t)g_fan + 1), k;
  for (k = 0; k < items; k++) {
    spin();
    unsigned what = (unsigned)hk_below(&R, 10);
    if (what < 6 && depth < g_max_depth) {
      dr_dag_node * ci = 0;
      dr_dag_node * t = dr_enter_create_task__(&ci, pick_file(), __LINE__, *worker);
      serial += g_last_dur; g_n_create++;
      int cw = (int)hk_below(&R, (uint64_t)g_workers);
      ull child = run_task(ci, &cw, depth + 1, 0);
      if (serial + child > best) best = serial + child;
      *worker = pick_worker(*worker);
      dr_return_from_create_task__(t, pick_file(), __LINE__, *worker);
    } else if (what < 8 && depth < g_max_depth) {
      serial += run_section(worker, depth + 1, 1, 0);
    } else {
      dr_dag_node * t = dr_enter_other__(pick_file(), __LINE__, *worker);
      serial += g_last_dur; g_n_other++;
      *worker = pick_worker(*worker);
      dr_return_from_other__(t, pick_file(), __LINE__, *worker);
    }
  }
  spin();
  dr_dag_node * t = dr_enter_wait_tasks__(pick_file(), __LINE__, *worker);
  serial += g_last_dur; g_n_wait++;
  *worker = pick_worker(*worker);
  dr_return_from_wait_tasks__(t, pick_file(), __LINE__, *worker);
  return best > serial ? best : serial;
}

static ull run_task(dr_dag_node * created_by, int * worker, int depth, int is_root) {
  ull serial = 0;
  if (!is_root) dr_start_task__(created_by, pick_file(), __LINE__, *worker);
  int nsec = (int)hk_below(&R, 4), k;
  if (is_root && nsec == 0) nsec = 1;
  for (k = 0; k < nsec; k++) {
    spin();
    if (hk_below(&R, 4) == 0) {
      dr_dag_node * t = dr_enter_other__(pick_file(), __LINE__, *worker);
      serial += g_last_dur; g_n_other++;
      *worker = pick_worker(*worker);
      dr_return_from_other__(t, pick_file(), __LINE__, *worker);
    }
    serial += run_section(worker, depth, 0, (int)hk_below(&R, 2));
  }
  spin();
  if (!is_root) { dr_end_task__(pick_file(), __LINE__, *worker); serial += g_last_dur; g_n_end++; }
  return serial;
}

int main(int argc, char ** argv) {
  hk_init(argc, argv);
  uint64_t seed = hk_seed();
  const char * prefix = hk_arg_s("prefix", "/tmp/h_dr_sim");
  g_max_depth = (int)hk_arg("depth", 4);
  g_fan = (int)hk_arg("fan", 4);
  g_workers = (int)hk_arg("workers", 4);
  g_maxspin = (unsigned)hk_arg("maxspin", 20000);
  g_files_used = (int)hk_arg("files", 5);
  if (g_files_used > 300) g_files_used = 300;
  hk_rng_seed(&R, seed, 140);
  dr_options opts;
  dr_options_default_(&opts);                  /* defaults, then the DR_* environment variables */
  opts.dag_file_prefix = prefix;
  opts.gpl_file_yes = 0;
  opts.worker_specific_state_array = 1;
  opts.hooks.enter_create_task = on_interval;
  opts.hooks.enter_wait_tasks = on_interval;
  opts.hooks.enter_other = on_interval;
  opts.hooks.end_task = on_interval;
  int w = (int)hk_below(&R, (uint64_t)g_workers);
  dr_start__(&opts, "root.c", 1, w, g_workers);
  ull tinf = run_task(0, &w, 0, 1);
  dr_stop__("root.c", 2, w);                   /* ends the root task */
  tinf += g_last_dur; g_n_end++;
  dr_dag_node_info * ri = &GS.root->info;
  /* ---- the recorder's totals in its root node vs the oracle ---- */
  HK_CHECK(ri->t_1 == g_T1, "dr:work", "recorder work %llu != sum of the %ld interval lengths %llu", (ull)ri->t_1, g_hook_calls, g_T1);
  HK_CHECK(ri->t_inf == tinf, "dr:critical-path", "recorder critical path %llu != longest dependency chain %llu", (ull)ri->t_inf, tinf);
  HK_CHECK(ri->t_inf <= ri->t_1, "dr:critical-path-exceeds-work", "T_inf %llu > T_1 %llu", (ull)ri->t_inf, (ull)ri->t_1);
  HK_CHECK(ri->logical_node_counts[dr_dag_node_kind_create_task] == g_n_create, "dr:count-create", "create intervals %ld != %ld", ri->logical_node_counts[dr_dag_node_kind_create_task], g_n_create);
  HK_CHECK(ri->logical_node_counts[dr_dag_node_kind_wait_tasks] == g_n_wait, "dr:count-wait", "wait intervals %ld != %ld", ri->logical_node_counts[dr_dag_node_kind_wait_tasks], g_n_wait);
  HK_CHECK(ri->logical_node_counts[dr_dag_node_kind_end_task] == g_n_end, "dr:count-end", "end intervals %ld != %ld", ri->logical_node_counts[dr_dag_node_kind_end_task], g_n_end);
  HK_CHECK(ri->logical_node_counts[dr_dag_node_kind_other] == g_n_other, "dr:count-other", "other intervals %ld != %ld", ri->logical_node_counts[dr_dag_node_kind_other], g_n_other);
  /* the edge totals of a run are what the .stat report sums up (materialised edges + counts kept in collapsed nodes);
     the driver reads them from the report and compares with the numbers printed here */
  dr_dump_();
  hk_sample("seed %llu: %ld creates, %ld sections, %ld others on %d workers; T1=%llu T_inf=%llu; root holds %ld nodes",
            (ull)seed, g_n_create, g_n_section, g_n_other, g_workers, g_T1, tinf, ri->cur_node_count);
  hk_report("T1", (long long)g_T1);
  hk_report("Tinf", (long long)tinf);
  hk_report("creates", g_n_create);
  hk_report("waits", g_n_wait);
  hk_report("ends", g_n_end);
  hk_report("others", g_n_other);
  hk_report("sections", g_n_section);
  hk_report("intervals", g_hook_calls);
  hk_report("materialized_nodes", ri->cur_node_count);
  hk_report("edges_create", g_n_create);
  hk_report("edges_create_cont", g_n_create);
  hk_report("edges_end", g_n_create);
  hk_report("edges_wait_cont", g_n_section);
  hk_report("edges_other_cont", g_n_other);
  hk_report("root_edges_end", ri->logical_edge_counts[dr_dag_edge_kind_end]);
  hk_report("root_edges_create", ri->logical_edge_counts[dr_dag_edge_kind_create]);
  hk_report("root_edges_create_cont", ri->logical_edge_counts[dr_dag_edge_kind_create_cont]);
  hk_report("root_edges_wait_cont", ri->logical_edge_counts[dr_dag_edge_kind_wait_cont]);
  hk_report("root_edges_other_cont", ri->logical_edge_counts[dr_dag_edge_kind_other_cont]);
  return hk_finish();
}
