/*
 * h_dr_sim --- C18 (and producer of the DAG files C19 validates):
 * a serial simulator of multi-worker executions drives the DAG Recorder's
 * public entry points (the dr_*__ functions take the worker id explicitly) for
 * a generated well-nested program
 *     task ::= section* end ; section ::= (section|create)* wait   (+ 'other' intervals)
 * with an arbitrary task->worker assignment and busy waits of random length.
 * The user hooks in dr_options.hooks receive every interval as it closes; from
 * those (start,end) pairs and the program structure the harness computes its own
 * totals: T1 = sum of interval lengths, T_inf = longest dependency chain, counts
 * of create/wait/end/other intervals and of edges by kind.  They must equal what
 * the recorder holds in its root node after dr_stop, whatever contraction options
 * are in force (set through the documented DR_* environment variables).
 * par=1: every task is a real OS thread holding a worker token while it talks to the recorder, so the
 * intervals of different workers overlap in time (work exceeds elapsed time, as in a real parallel run).
 * args: seed= prefix=<output file prefix> depth= fan= workers= maxspin= par=
 */
#ifndef _GNU_SOURCE
#define _GNU_SOURCE
#endif
#define DAG_RECORDER 2
#include <dag_recorder_impl.h>
#include "hk.h"

#include <pthread.h>

static int g_workers, g_max_depth, g_fan, g_par, g_vt;
/* vt=1 (serial): virtual time.  Every task has its own clock; a child starts at its parent's time of creation and
   runs 'in parallel' with the parent's continuation, a wait returns at the latest end of the section's children. */
static unsigned long long * g_now;
#define VT() do { if (g_vt) myth_verif_dr_vclock_set(*g_now); } while (0)
static unsigned g_maxspin;

/* oracle, fed by the hooks (the hook runs on the thread that closes the interval) */
static __thread unsigned long long g_last_dur;
static unsigned long long g_T1;
static long g_n_create, g_n_wait, g_n_end, g_n_other, g_n_section, g_hook_calls, g_threads_started, g_max_live;
static int g_files_used;
#define CNT(x) __sync_fetch_and_add(&(x), 1)

static int on_interval(dr_dag_node * n) {
  g_last_dur = n->info.end.t - n->info.start.t;
  HK_CHECK(n->info.end.t >= n->info.start.t, "dr:interval-negative", "an interval ends before it starts");
  __sync_fetch_and_add(&g_T1, g_last_dur);
  CNT(g_hook_calls);
  return 0;
}

/* ---- par=1: every task is an OS thread; a thread must hold a worker token while it calls the
   recorder (at most one thread per worker id at any time, as with real workers); tokens are given
   up while waiting for children, so intervals of different workers overlap in time ---- */
static pthread_mutex_t g_tok_m = PTHREAD_MUTEX_INITIALIZER;
static pthread_cond_t g_tok_c = PTHREAD_COND_INITIALIZER;
static unsigned char g_tok_busy[64];
static long g_live;
static int tok_acquire(hk_rng_t * r) {
  pthread_mutex_lock(&g_tok_m);
  for (;;) {
    int free_ids[64], nf = 0, w;
    for (w = 0; w < g_workers; w++) if (!g_tok_busy[w]) free_ids[nf++] = w;
    if (nf) { w = free_ids[hk_below(r, (uint64_t)nf)]; g_tok_busy[w] = 1; pthread_mutex_unlock(&g_tok_m); return w; }
    pthread_cond_wait(&g_tok_c, &g_tok_m);
  }
}
static void tok_release(int w) {
  pthread_mutex_lock(&g_tok_m);
  g_tok_busy[w] = 0;
  pthread_cond_broadcast(&g_tok_c);
  pthread_mutex_unlock(&g_tok_m);
}

static void spin(hk_rng_t * r) {
  unsigned n = (unsigned)hk_below(r, 6) == 0 ? (unsigned)hk_below(r, g_maxspin + 1) : (unsigned)hk_below(r, 200);
  if (g_vt) { *g_now += 1 + n; return; }
  if (g_par) n = n * 8 + 3000;    /* long enough for sibling tasks to overlap despite thread start-up cost */
  hk_work(n);
}
static int pick_worker(hk_rng_t * r, int cur) {
  /* a task may come back on another worker after any runtime call */
  if (hk_below(r, 3) != 0) return cur;
  if (!g_par) return (int)hk_below(r, (uint64_t)g_workers);
  tok_release(cur);
  return tok_acquire(r);
}
static const char * pick_file(hk_rng_t * r) {
  static char names[300][24];
  static int inited;
  if (!inited) { int i; for (i = 0; i < 300; i++) snprintf(names[i], sizeof(names[i]), "src_%03d.c", i); inited = 1; }
  /* consecutive positions usually lie in the same source file (a node that starts and ends in one file is the
     common case in a real recording); the file changes at every fifth position on average */
  static __thread int cur = -1;
  if (cur < 0 || cur >= g_files_used || hk_below(r, 5) == 0) cur = (int)hk_below(r, (uint64_t)g_files_used);
  return names[cur];
}

typedef unsigned long long ull;
static ull run_task(hk_rng_t * r, dr_dag_node * created_by, int * worker, int depth, int is_root);

typedef struct { pthread_t th; dr_dag_node * created_by; int depth; uint64_t rseed; ull tinf; ull serial_at_create; } child_t;
static void * child_thread(void * a_) {
  child_t * c = (child_t *)a_;
  hk_rng_t r; hk_rng_seed(&r, c->rseed, 141);
  long live = __sync_add_and_fetch(&g_live, 1);
  if (live > g_max_live) g_max_live = live;
  int w = tok_acquire(&r);
  c->tinf = run_task(&r, c->created_by, &w, c->depth, 0);
  tok_release(w);
  __sync_fetch_and_sub(&g_live, 1);
  return 0;
}

/* returns the section's critical path */
static ull run_section(hk_rng_t * r, int * worker, int depth, int nested, int explicit_begin) {
  ull serial = 0, best = 0;
  VT();
  if (nested || explicit_begin) dr_begin_section__(*worker);
  CNT(g_n_section);
  int items = (int)hk_below(r, (uint64_t)g_fan + 1), k;
  child_t kids[8];
  int nk = 0;
  ull last_child_end = 0;
  for (k = 0; k < items; k++) {
    spin(r);
    unsigned what = (unsigned)hk_below(r, 10);
    if (what < 6 && depth < g_max_depth && nk < 8) {
      dr_dag_node * ci = 0;
      VT();
      dr_dag_node * t = dr_enter_create_task__(&ci, pick_file(r), __LINE__, *worker);
      serial += g_last_dur; CNT(g_n_create);
      if (g_par) {
        child_t * c = &kids[nk++];
        c->created_by = ci; c->depth = depth + 1; c->rseed = hk_rand(r); c->serial_at_create = serial; c->tinf = 0;
        pthread_attr_t at; pthread_attr_init(&at); pthread_attr_setstacksize(&at, 512 * 1024);
        int rc = pthread_create(&c->th, &at, child_thread, c);
        HK_CHECK(rc == 0, "dr:harness", "pthread_create failed (%d)", rc);
        pthread_attr_destroy(&at);
        CNT(g_threads_started);
      } else {
        int cw = (int)hk_below(r, (uint64_t)g_workers);
        ull child_now = g_vt ? *g_now + hk_below(r, 60) : 0, * saved = g_now;
        if (g_vt) g_now = &child_now;
        ull child = run_task(r, ci, &cw, depth + 1, 0);
        g_now = saved;
        if (child_now > last_child_end) last_child_end = child_now;
        if (serial + child > best) best = serial + child;
      }
      *worker = pick_worker(r, *worker);
      if (g_vt) *g_now += hk_below(r, 40);
      VT();
      dr_return_from_create_task__(t, pick_file(r), __LINE__, *worker);
    } else if (what < 8 && depth < g_max_depth) {
      serial += run_section(r, worker, depth + 1, 1, 0);
    } else {
      VT();
      dr_dag_node * t = dr_enter_other__(pick_file(r), __LINE__, *worker);
      serial += g_last_dur; CNT(g_n_other);
      *worker = pick_worker(r, *worker);
      if (g_vt) *g_now += hk_below(r, 400);
      VT();
      dr_return_from_other__(t, pick_file(r), __LINE__, *worker);
    }
  }
  spin(r);
  VT();
  dr_dag_node * t = dr_enter_wait_tasks__(pick_file(r), __LINE__, *worker);
  serial += g_last_dur; CNT(g_n_wait);
  if (g_par) {
    /* blocked in the wait: the worker is free for somebody else until all children have ended */
    tok_release(*worker);
    for (k = 0; k < nk; k++) {
      pthread_join(kids[k].th, 0);
      if (kids[k].serial_at_create + kids[k].tinf > best) best = kids[k].serial_at_create + kids[k].tinf;
    }
    *worker = tok_acquire(r);
  } else {
    *worker = pick_worker(r, *worker);
  }
  if (g_vt) { if (last_child_end > *g_now) *g_now = last_child_end; *g_now += 1 + hk_below(r, 40); }
  VT();
  dr_return_from_wait_tasks__(t, pick_file(r), __LINE__, *worker);
  return best > serial ? best : serial;
}

static ull run_task(hk_rng_t * r, dr_dag_node * created_by, int * worker, int depth, int is_root) {
  ull serial = 0;
  VT();
  if (!is_root) dr_start_task__(created_by, pick_file(r), __LINE__, *worker);
  int nsec = (int)hk_below(r, 4), k;
  if (is_root && nsec == 0) nsec = 1;
  for (k = 0; k < nsec; k++) {
    spin(r);
    if (hk_below(r, 4) == 0) {
      VT();
      dr_dag_node * t = dr_enter_other__(pick_file(r), __LINE__, *worker);
      serial += g_last_dur; CNT(g_n_other);
      *worker = pick_worker(r, *worker);
      if (g_vt) *g_now += hk_below(r, 400);
      VT();
      dr_return_from_other__(t, pick_file(r), __LINE__, *worker);
    }
    serial += run_section(r, worker, depth, 0, (int)hk_below(r, 2));
  }
  spin(r);
  VT();
  if (!is_root) { dr_end_task__(pick_file(r), __LINE__, *worker); serial += g_last_dur; CNT(g_n_end); }
  return serial;
}

int main(int argc, char ** argv) {
  hk_init(argc, argv);
  uint64_t seed = hk_seed();
  const char * prefix = hk_arg_s("prefix", "/tmp/h_dr_sim");
  g_max_depth = (int)hk_arg("depth", 4);
  g_fan = (int)hk_arg("fan", 4);
  g_workers = (int)hk_arg("workers", 4);
  g_maxspin = (unsigned)hk_arg("maxspin", 20000);
  g_files_used = (int)hk_arg("files", 5);
  if (g_files_used > 300) g_files_used = 300;
  g_par = (int)hk_arg("par", 0);
  g_vt = (int)hk_arg("vt", 0);
  if (g_vt) g_par = 0;
  ull root_now = 1000000;
  g_now = &root_now;
  if (g_workers > 64) g_workers = 64;
  hk_rng_t R; hk_rng_seed(&R, seed, 140);
  dr_options opts;
  dr_options_default_(&opts);                  /* defaults, then the DR_* environment variables */
  opts.dag_file_prefix = prefix;
  opts.gpl_file_yes = 0;
  opts.worker_specific_state_array = 1;
  opts.hooks.enter_create_task = on_interval;
  opts.hooks.enter_wait_tasks = on_interval;
  opts.hooks.enter_other = on_interval;
  opts.hooks.end_task = on_interval;
  int w = g_par ? tok_acquire(&R) : (int)hk_below(&R, (uint64_t)g_workers);
  VT();
  dr_start__(&opts, "root.c", 1, w, g_workers);
  ull tinf = run_task(&R, 0, &w, 0, 1);
  VT();
  dr_stop__("root.c", 2, w);                   /* ends the root task */
  if (g_vt) { hk_report("virtual_clock_reads", (long long)myth_verif_dr_vclock_reads()); myth_verif_dr_vclock_set(0); }
  tinf += g_last_dur; g_n_end++;
  ull root_elapsed = GS.root->info.end.t - GS.root->info.start.t;
  dr_dag_node_info * ri = &GS.root->info;
  /* ---- the recorder's totals in its root node vs the oracle ---- */
  HK_CHECK(ri->t_1 == g_T1, "dr:work", "recorder work %llu != sum of the %ld interval lengths %llu", (ull)ri->t_1, g_hook_calls, g_T1);
  HK_CHECK(ri->t_inf == tinf, "dr:critical-path", "recorder critical path %llu != longest dependency chain %llu", (ull)ri->t_inf, tinf);
  HK_CHECK(ri->t_inf <= ri->t_1, "dr:critical-path-exceeds-work", "T_inf %llu > T_1 %llu", (ull)ri->t_inf, (ull)ri->t_1);
  HK_CHECK(ri->logical_node_counts[dr_dag_node_kind_create_task] == g_n_create, "dr:count-create", "create intervals %ld != %ld", ri->logical_node_counts[dr_dag_node_kind_create_task], g_n_create);
  HK_CHECK(ri->logical_node_counts[dr_dag_node_kind_wait_tasks] == g_n_wait, "dr:count-wait", "wait intervals %ld != %ld", ri->logical_node_counts[dr_dag_node_kind_wait_tasks], g_n_wait);
  HK_CHECK(ri->logical_node_counts[dr_dag_node_kind_end_task] == g_n_end, "dr:count-end", "end intervals %ld != %ld", ri->logical_node_counts[dr_dag_node_kind_end_task], g_n_end);
  HK_CHECK(ri->logical_node_counts[dr_dag_node_kind_other] == g_n_other, "dr:count-other", "other intervals %ld != %ld", ri->logical_node_counts[dr_dag_node_kind_other], g_n_other);
  /* the edge totals of a run are what the .stat report sums up (materialised edges + counts kept in collapsed nodes);
     the driver reads them from the report and compares with the numbers printed here */
  dr_dump_();
  hk_sample("seed %llu: %ld creates, %ld sections, %ld others on %d workers; T1=%llu T_inf=%llu; root holds %ld nodes",
            (ull)seed, g_n_create, g_n_section, g_n_other, g_workers, g_T1, tinf, ri->cur_node_count);
  hk_report("T1", (long long)g_T1);
  hk_report("parallel_os_threads", g_threads_started);
  hk_report("max_tasks_alive_at_once", g_max_live);
  hk_report("work_exceeds_elapsed_time", g_T1 > root_elapsed);
  hk_report("Tinf", (long long)tinf);
  hk_report("creates", g_n_create);
  hk_report("waits", g_n_wait);
  hk_report("ends", g_n_end);
  hk_report("others", g_n_other);
  hk_report("sections", g_n_section);
  hk_report("intervals", g_hook_calls);
  hk_report("materialized_nodes", ri->cur_node_count);
  hk_report("edges_create", g_n_create);
  hk_report("edges_create_cont", g_n_create);
  hk_report("edges_end", g_n_create);
  hk_report("edges_wait_cont", g_n_section);
  hk_report("edges_other_cont", g_n_other);
  hk_report("root_edges_end", ri->logical_edge_counts[dr_dag_edge_kind_end]);
  hk_report("root_edges_create", ri->logical_edge_counts[dr_dag_edge_kind_create]);
  hk_report("root_edges_create_cont", ri->logical_edge_counts[dr_dag_edge_kind_create_cont]);
  hk_report("root_edges_wait_cont", ri->logical_edge_counts[dr_dag_edge_kind_wait_cont]);
  hk_report("root_edges_other_cont", ri->logical_edge_counts[dr_dag_edge_kind_other_cont]);
  return hk_finish();
}
