/*
 * h_uncond --- C08: uncondition variable.  Signal always hands over the one
 * waiter, early or late; the waiter resumes exactly once per rendezvous and
 * never without a signal.
 * args: seed= progs= nw= pairs=
 */
#ifndef _GNU_SOURCE
#define _GNU_SOURCE
#endif
#include "hkm.h"

/* ---------------------------------------------------------- ping-pong rendezvous over two variables */
typedef struct chan {
  myth_uncond_t u[2];
  _Atomic long flag[2];          /* 0 or seq of the thread announced as sleeping on u[i] */
  _Atomic uint64_t sig_stamp[2]; /* stamp taken right before the signal for the current seq */
  _Atomic long sig_seq[2];
  long rounds;
  _Atomic long resumes[2];
  char pad[64];
} chan_t;

static chan_t * g_ch;
static _Atomic long g_early_signal_possible, g_rendezvous;

/* wait on side i for rendezvous number seq */
static void rv_wait(chan_t * c, int i, long seq) {
  long z = 0;
  int ok = atomic_compare_exchange_strong(&c->flag[i], &z, seq);   /* 1: announce atomically */
  HK_CHECK(ok, "uncond:harness", "flag[%d] was %ld when announcing %ld", i, z, seq);
  int rc = myth_uncond_wait(&c->u[i]);                              /* 2 */
  uint64_t now = myth_verif_stamp();
  HK_CHECK(rc == 0, "uncond:wait-rc", "wait returned %d", rc);
  long ss = atomic_load(&c->sig_seq[i]);
  uint64_t st = atomic_load(&c->sig_stamp[i]);
  HK_CHECK(ss == seq && st != 0 && st < now, "uncond:resumed-without-signal",
           "side %d: wait for rendezvous %ld returned at stamp %llu but the last signal called on it was for rendezvous %ld (stamp %llu)",
           i, seq, (unsigned long long)now, ss, (unsigned long long)st);
  long n = atomic_fetch_add(&c->resumes[i], 1) + 1;
  HK_CHECK(n == seq, "uncond:resume-count", "side %d: %ld resumptions after %ld rendezvous", i, n, seq);
}

/* signal side i for rendezvous seq: first learn (atomically) that the partner announced itself */
static void rv_signal(chan_t * c, int i, long seq) {
  long spins = 0;
  struct timespec t0; clock_gettime(CLOCK_MONOTONIC, &t0);
  for (;;) {
    long e = seq;
    if (atomic_compare_exchange_strong(&c->flag[i], &e, 0)) break;   /* 3: atomically mark none sleeping */
    HK_CHECK(e == 0, "uncond:harness", "flag[%d]=%ld while expecting %ld", i, e, seq);
    myth_yield();                                                     /* partner is runnable: it has not announced yet */
    if ((++spins & 0xfffff) == 0) {
      struct timespec t1; clock_gettime(CLOCK_MONOTONIC, &t1);
      if (t1.tv_sec - t0.tv_sec > 120) HK_FAIL("uncond:partner-never-announced", "side %d rendezvous %ld: partner did not reach its wait within 120 s", i, seq);
    }
  }
  if (c->u[i].th == 0) atomic_fetch_add(&g_early_signal_possible, 1);
  atomic_store(&c->sig_seq[i], seq);
  atomic_store(&c->sig_stamp[i], myth_verif_stamp());
  int rc = myth_uncond_signal(&c->u[i]);                              /* 4 */
  HK_CHECK(rc == 0, "uncond:signal-rc", "signal returned %d", rc);
  atomic_fetch_add(&g_rendezvous, 1);
}

static void * side_a(void * a_) {
  hkm_targ_t * a = (hkm_targ_t *)a_;
  chan_t * c = &g_ch[a->idx / 2];
  hk_rng_t r; hk_rng_seed(&r, a->rseed, 31);
  long k;
  for (k = 1; k <= c->rounds; k++) {
    hkm_jitter(&r, 300);
    rv_signal(c, 1, k);     /* wake B (waits on u[1]) */
    rv_wait(c, 0, k);       /* wait for B's reply on u[0] */
  }
  return 0;
}
static void * side_b(void * a_) {
  hkm_targ_t * a = (hkm_targ_t *)a_;
  chan_t * c = &g_ch[a->idx / 2];
  hk_rng_t r; hk_rng_seed(&r, a->rseed, 32);
  long k;
  for (k = 1; k <= c->rounds; k++) {
    rv_wait(c, 1, k);
    hkm_jitter(&r, 300);
    rv_signal(c, 0, k);
  }
  return 0;
}
static void * side(void * a_) { hkm_targ_t * a = (hkm_targ_t *)a_; return (a->idx & 1) ? side_b(a_) : side_a(a_); }

static void pingpong_program(hk_rng_t * r) {
  int pairs = (int)hk_arg("pairs", 0);
  if (pairs <= 0) pairs = 1 + (int)hk_below(r, 12);
  g_ch = (chan_t *)calloc((size_t)pairs, sizeof(chan_t));
  int i;
  long rounds = 200 + (long)hk_below(r, 3000) / pairs;
  for (i = 0; i < pairs; i++) { myth_uncond_init(&g_ch[i].u[0]); myth_uncond_init(&g_ch[i].u[1]); g_ch[i].rounds = rounds; }
  hkm_targ_t * args = (hkm_targ_t *)calloc((size_t)pairs * 2, sizeof(hkm_targ_t));
  for (i = 0; i < pairs * 2; i++) { args[i].idx = i; args[i].rseed = hk_rand(r); }
  hkm_run_threads(pairs * 2, side, args, 0);
  for (i = 0; i < pairs; i++) {
    HK_CHECK(atomic_load(&g_ch[i].resumes[0]) == rounds && atomic_load(&g_ch[i].resumes[1]) == rounds,
             "uncond:resume-count", "pair %d resumed %ld/%ld times in %ld rounds", i,
             atomic_load(&g_ch[i].resumes[0]), atomic_load(&g_ch[i].resumes[1]), rounds);
    HK_CHECK(g_ch[i].u[0].th == 0 && g_ch[i].u[1].th == 0, "uncond:waiter-left-published", "pair %d", i);
  }
  free(args); free(g_ch);
  hk_sample("ping-pong: %d pairs x %ld rendezvous each way on the same two variables", pairs, rounds);
}

/* ---------------------------------------------------------- single-slot SPSC channel (as tests/myth_uncond_signal.c) */
enum { ST_FULL = 1, ST_SLEEPING = 2 };
typedef struct { volatile long p; myth_uncond_t u; long n; } slot_t;
static _Atomic long g_items;

static void slot_put(slot_t * s, long x) {
  for (;;) {
    long o = s->p;
    if (o & ST_FULL) {
      if (__sync_bool_compare_and_swap(&s->p, o, o | ST_SLEEPING)) myth_uncond_wait(&s->u);
    } else if (__sync_bool_compare_and_swap(&s->p, o, (x << 2) | ST_FULL)) {
      if (o & ST_SLEEPING) myth_uncond_signal(&s->u);
      return;
    }
  }
}
static long slot_get(slot_t * s) {
  for (;;) {
    long o = s->p;
    if (o & ST_FULL) {
      if (__sync_bool_compare_and_swap(&s->p, o, 0)) {
        if (o & ST_SLEEPING) myth_uncond_signal(&s->u);
        return o >> 2;
      }
    } else if (__sync_bool_compare_and_swap(&s->p, o, o | ST_SLEEPING)) {
      myth_uncond_wait(&s->u);
    }
  }
}
static void * slot_producer(void * a_) {
  slot_t * s = (slot_t *)((hkm_targ_t *)a_)->user;
  long i;
  for (i = 0; i < s->n; i++) slot_put(s, i);
  return 0;
}
static void * slot_consumer(void * a_) {
  slot_t * s = (slot_t *)((hkm_targ_t *)a_)->user;
  long i;
  for (i = 0; i < s->n; i++) {
    long v = slot_get(s);
    HK_CHECK(v == i, "uncond:item-lost-or-duplicated", "consumer received %ld as item #%ld", v, i);
    atomic_fetch_add(&g_items, 1);
  }
  return 0;
}
static void * slot_thread(void * a_) { hkm_targ_t * a = (hkm_targ_t *)a_; return (a->idx & 1) ? slot_consumer(a_) : slot_producer(a_); }
static void slot_program(hk_rng_t * r) {
  int pairs = 1 + (int)hk_below(r, 8), i;
  slot_t * s = (slot_t *)calloc((size_t)pairs, sizeof(slot_t));
  hkm_targ_t * args = (hkm_targ_t *)calloc((size_t)pairs * 2, sizeof(hkm_targ_t));
  long n = 500 + (long)hk_below(r, 4000) / pairs;
  for (i = 0; i < pairs; i++) { myth_uncond_init(&s[i].u); s[i].n = n; s[i].p = 0; }
  for (i = 0; i < pairs * 2; i++) { args[i].idx = i; args[i].user = &s[i / 2]; }
  hkm_run_threads(pairs * 2, slot_thread, args, 0);
  free(args); free(s);
  hk_sample("single-slot channels: %d producer/consumer pairs x %ld items, one variable per pair", pairs, n);
}


/* ---------------------------------------------------------- rotating waiters on ONE variable
   K threads take turns as the (single) waiter of one variable; one signaler serves the turns
   back to back.  Waiter of turn s may enter wait only after the signal of turn s-1 has
   returned (one waiter at a time), but it announces first and dawdles (without yielding)
   before it waits, so the signal for turn s is often early, and often issued while the waiter
   of turn s-1 has been handed over but has not run yet. */
#define ROT_MAXK 6
typedef struct {
  myth_uncond_t u;
  _Atomic long flag;            /* turn announced as about to sleep, or 0 */
  _Atomic long sig_done;        /* signals that have returned */
  _Atomic long sig_seq;
  long turns; int k;
  int slow;                     /* the waiter dawdles until the early signaler has spun a few million times */
  _Atomic int stop_fillers;
  _Atomic int * resumed;        /* per turn */
  _Atomic uint64_t * stamp;     /* per turn: stamp taken right before its signal */
} rot_t;
static rot_t g_rot;
static _Atomic long g_rot_turns, g_rot_early, g_rot_prev_not_resumed, g_rot_slow_turns, g_rot_filler_cycles;

static int rot_spin_until(_Atomic long * v, long want, const char * what, long turn) {
  long spins = 0;
  struct timespec t0; clock_gettime(CLOCK_MONOTONIC, &t0);
  while (atomic_load(v) != want) {
    myth_yield();
    if ((++spins & 0xfffff) == 0) {
      struct timespec t1; clock_gettime(CLOCK_MONOTONIC, &t1);
      if (t1.tv_sec - t0.tv_sec > 120) { HK_FAIL("uncond:rotation-stuck", "turn %ld: %s not reached within 120 s", turn, what); return 0; }
    }
  }
  return 1;
}

static void * rot_waiter(void * a_) {
  hkm_targ_t * a = (hkm_targ_t *)a_;
  rot_t * c = &g_rot;
  hk_rng_t r; hk_rng_seed(&r, a->rseed, 33);
  long s;
  for (s = a->idx + 1; s <= c->turns; s += c->k) {
    rot_spin_until(&c->sig_done, s - 1, "return of the previous turn's signal", s);
    long z = 0;
    int ok = atomic_compare_exchange_strong(&c->flag, &z, s);
    HK_CHECK(ok, "uncond:harness", "rotation flag was %ld when announcing turn %ld", z, s);
    if (c->slow) {
      /* a very late waiter: the signal for this turn has been spinning for a long time when the waiter arrives */
      unsigned long long h0 = myth_verif_hits("UNC_SIG_SPIN");
      struct timespec t0, t1; clock_gettime(CLOCK_MONOTONIC, &t0);
      for (;;) {
        hk_work(20000);
        clock_gettime(CLOCK_MONOTONIC, &t1);
        if (myth_verif_hits("UNC_SIG_SPIN") - h0 > 5000000ULL) break;
        if ((t1.tv_sec - t0.tv_sec) * 1000 + (t1.tv_nsec - t0.tv_nsec) / 1000000 > 2500) break;
      }
      atomic_fetch_add(&g_rot_slow_turns, 1);
    } else if (hk_below(&r, 3)) hk_work((unsigned)hk_below(&r, 4000));     /* no yield between announce and wait */
    int rc = myth_uncond_wait(&c->u);
    uint64_t now = myth_verif_stamp();
    HK_CHECK(rc == 0, "uncond:wait-rc", "wait returned %d", rc);
    long ss = atomic_load(&c->sig_seq);
    uint64_t st = atomic_load(&c->stamp[s]);
    HK_CHECK(ss >= s && st != 0 && st < now, "uncond:resumed-without-signal",
             "rotation: the waiter of turn %ld returned from wait at stamp %llu; its signal was called at stamp %llu (0 = not yet), the last signal called was for turn %ld",
             s, (unsigned long long)now, (unsigned long long)st, ss);
    int n = atomic_fetch_add(&c->resumed[s], 1) + 1;
    HK_CHECK(n == 1, "uncond:resume-count", "rotation: the waiter of turn %ld returned from wait %d times", s, n);
  }
  return 0;
}

static void * rot_signaler(void * a_) {
  hkm_targ_t * a = (hkm_targ_t *)a_;
  rot_t * c = &g_rot;
  hk_rng_t r; hk_rng_seed(&r, a->rseed, 34);
  long s;
  for (s = 1; s <= c->turns; s++) {
    long spins = 0;
    struct timespec t0; clock_gettime(CLOCK_MONOTONIC, &t0);
    for (;;) {
      long e = s;
      if (atomic_compare_exchange_strong(&c->flag, &e, 0)) break;
      HK_CHECK(e == 0, "uncond:harness", "rotation flag=%ld while expecting turn %ld", e, s);
      myth_yield();
      if ((++spins & 0xfffff) == 0) {
        struct timespec t1; clock_gettime(CLOCK_MONOTONIC, &t1);
        if (t1.tv_sec - t0.tv_sec > 120) { HK_FAIL("uncond:partner-never-announced", "rotation turn %ld: the waiter did not announce within 120 s", s); return 0; }
      }
    }
    if (c->u.th == 0) atomic_fetch_add(&g_rot_early, 1);
    if (s > 1 && atomic_load(&c->resumed[s - 1]) == 0) atomic_fetch_add(&g_rot_prev_not_resumed, 1);
    atomic_store(&c->stamp[s], myth_verif_stamp());
    atomic_store(&c->sig_seq, s);
    int rc = myth_uncond_signal(&c->u);
    HK_CHECK(rc == 0, "uncond:signal-rc", "signal returned %d", rc);
    atomic_store(&c->sig_done, s);
    atomic_fetch_add(&g_rot_turns, 1);
    if (hk_below(&r, 8) == 0) hkm_jitter(&r, 300);
  }
  return 0;
}
static void * rot_trivial(void * a) { return a; }
/* bystanders: keep every worker's run queue busy (create/join, yields) while the rendezvous goes on */
static void * rot_filler(void * a_) {
  (void)a_;
  long n = 0;
  while (!atomic_load(&g_rot.stop_fillers)) {
    myth_thread_t t = myth_create(rot_trivial, 0);
    myth_yield_ex(myth_yield_option_steal_first);
    myth_join(t, 0);
    myth_yield();
    n++;
  }
  atomic_fetch_add(&g_rot_filler_cycles, n);
  return 0;
}
static void * rot_thread(void * a_) { hkm_targ_t * a = (hkm_targ_t *)a_; return a->idx < g_rot.k ? rot_waiter(a_) : rot_signaler(a_); }

static void rotation_program(hk_rng_t * r) {
  rot_t * c = &g_rot;
  memset(c, 0, sizeof(*c));
  c->k = 2 + (int)hk_below(r, ROT_MAXK - 1);
  c->turns = 150 + (long)hk_below(r, 800);
  c->slow = (myth_get_num_workers() >= 3 && hk_below(r, 3) == 0);
  if (c->slow) c->turns = 2 + (long)hk_below(r, 3);
  c->resumed = (_Atomic int *)calloc((size_t)c->turns + 2, sizeof(_Atomic int));
  c->stamp = (_Atomic uint64_t *)calloc((size_t)c->turns + 2, sizeof(_Atomic uint64_t));
  myth_uncond_init(&c->u);
  hkm_targ_t args[ROT_MAXK + 1];
  int i;
  for (i = 0; i <= c->k; i++) { args[i].idx = i; args[i].rseed = hk_rand(r); args[i].user = 0; }
  myth_thread_t fillers[16];
  int nf = c->slow ? 2 * myth_get_num_workers() : 0, f;
  if (nf > 16) nf = 16;
  for (f = 0; f < nf; f++) fillers[f] = myth_create(rot_filler, 0);
  hkm_run_threads(c->k + 1, rot_thread, args, 0);
  atomic_store(&c->stop_fillers, 1);
  for (f = 0; f < nf; f++) myth_join(fillers[f], 0);
  long s;
  for (s = 1; s <= c->turns; s++)
    HK_CHECK(atomic_load(&c->resumed[s]) == 1, "uncond:resume-count", "rotation: the waiter of turn %ld returned from wait %d times", s, atomic_load(&c->resumed[s]));
  HK_CHECK(c->u.th == 0, "uncond:waiter-left-published", "rotation: variable still names a waiter after the last turn");
  hk_sample("rotation: %d threads take turns as the waiter of one variable, %ld turns served back to back by one signaler", c->k, c->turns);
  free((void *)c->resumed); free((void *)c->stamp);
}

int main(int argc, char ** argv) {
  hk_init(argc, argv);
  uint64_t seed = hk_seed();
  int progs = (int)hk_arg("progs", 6);
  hkm_setup();
  int p;
  for (p = 0; p < progs; p++) {
    hk_rng_t r; hk_rng_seed(&r, seed, (uint64_t)p);
    unsigned which = (unsigned)hk_below(&r, 4);
    if (which == 0) slot_program(&r); else if (which == 1) rotation_program(&r); else pingpong_program(&r);
  }
  hk_report("programs", progs);
  hk_report("rendezvous", atomic_load(&g_rendezvous));
  hk_report("signals_issued_before_waiter_published", atomic_load(&g_early_signal_possible));
  hk_report("slot_items", atomic_load(&g_items));
  hk_report("rotation_turns", atomic_load(&g_rot_turns));
  hk_report("rotation_turns_with_very_late_waiter", atomic_load(&g_rot_slow_turns));
  hk_report("rotation_bystander_cycles", atomic_load(&g_rot_filler_cycles));
  hk_report("rotation_signals_before_waiter_published", atomic_load(&g_rot_early));
  hk_report("rotation_signals_with_previous_waiter_not_resumed", atomic_load(&g_rot_prev_not_resumed));
  hk_report("workers", myth_get_num_workers());
  return hk_finish();
}
