/*
 * h_barrier --- C06: nobody passes round k before all N arrived; exactly one
 * serial thread per round; immediately reusable.
 * args: seed= progs= nw= n=<participants or 0>
 */
#ifndef _GNU_SOURCE
#define _GNU_SOURCE
#endif
#include "hkm.h"

#define MAXR 4096
static myth_barrier_t g_bar;
static int g_N, g_R;
static _Atomic int g_arrived[MAXR + 2];
static _Atomic int g_serial[MAXR + 2];
static _Atomic int g_passed[MAXR + 2];
static _Atomic long g_waits, g_resumed_elsewhere, g_raced_ahead;

static void * participant(void * a_) {
  hkm_targ_t * a = (hkm_targ_t *)a_;
  hk_rng_t r; hk_rng_seed(&r, a->rseed, 11);
  int straggler = (int)hk_below(&r, 4) == 0;
  int k;
  for (k = 0; k < g_R; k++) {
    if (straggler) { unsigned j = (unsigned)hk_below(&r, 6); if (j < 2) myth_yield(); else if (j < 4) hk_work((unsigned)hk_below(&r, 1500)); }
    atomic_fetch_add(&g_arrived[k], 1);
    int w0 = myth_get_worker_num();
    int rv = myth_barrier_wait(&g_bar);
    int arr = atomic_load(&g_arrived[k]);
    HK_CHECK(arr == g_N, "barrier:passed-early",
             "participant %d returned from its wait #%d with only %d of %d arrivals", a->idx, k, arr, g_N);
    int nxt = atomic_load(&g_arrived[k + 1]);
    HK_CHECK(nxt <= g_N, "barrier:round-overrun", "round %d already has %d arrivals", k + 1, nxt);
    if (nxt > 0) atomic_fetch_add(&g_raced_ahead, 1);
    if (rv == MYTH_BARRIER_SERIAL_THREAD) {
      int s = atomic_fetch_add(&g_serial[k], 1);
      HK_CHECK(s == 0, "barrier:serial-count", "round %d: %d serial-thread return values", k, s + 1);
    } else {
      HK_CHECK(rv == 0, "barrier:return-value", "round %d: participant %d got return value %d", k, a->idx, rv);
    }
    atomic_fetch_add(&g_passed[k], 1);
    if (myth_get_worker_num() != w0) atomic_fetch_add(&g_resumed_elsewhere, 1);
    atomic_fetch_add(&g_waits, 1);
  }
  return 0;
}

int main(int argc, char ** argv) {
  hk_init(argc, argv);
  uint64_t seed = hk_seed();
  int progs = (int)hk_arg("progs", 6);
  hkm_setup();
  int p;
  for (p = 0; p < progs; p++) {
    hk_rng_t r; hk_rng_seed(&r, seed, (uint64_t)p);
    g_N = (int)hk_arg("n", 0);
    if (g_N <= 0) { static const int ns[] = { 1, 2, 3, 4, 7, 16, 64, 200 }; g_N = ns[hk_below(&r, 8)]; }
    g_R = (int)(4000 / g_N) + 3; if (g_R > MAXR) g_R = MAXR;
    if (hk_arg("rounds", 0) > 0) g_R = (int)hk_arg("rounds", 0);
    int i;
    for (i = 0; i < g_R + 2; i++) { atomic_store(&g_arrived[i], 0); atomic_store(&g_serial[i], 0); atomic_store(&g_passed[i], 0); }
    myth_barrier_init(&g_bar, 0, g_N);
    hkm_targ_t * args = (hkm_targ_t *)calloc((size_t)g_N, sizeof(hkm_targ_t));
    for (i = 0; i < g_N; i++) { args[i].idx = i; args[i].rseed = hk_rand(&r); }
    hkm_run_threads(g_N, participant, args, 0);
    for (i = 0; i < g_R; i++) {
      HK_CHECK(atomic_load(&g_serial[i]) == 1, "barrier:serial-count", "round %d had %d serial threads", i, atomic_load(&g_serial[i]));
      HK_CHECK(atomic_load(&g_passed[i]) == g_N, "barrier:not-all-released", "round %d released %d of %d", i, atomic_load(&g_passed[i]), g_N);
    }
    myth_barrier_destroy(&g_bar);
    free(args);
    if (p < 3) hk_sample("barrier: %d participants x %d rounds, stragglers and racers mixed", g_N, g_R);
  }
  hk_report("programs", progs);
  hk_report("barrier_waits", atomic_load(&g_waits));
  hk_report("resumed_on_other_worker", atomic_load(&g_resumed_elsewhere));
  hk_report("saw_next_round_arrivals_on_return", atomic_load(&g_raced_ahead));
  hk_report("workers", myth_get_num_workers());
  return hk_finish();
}
