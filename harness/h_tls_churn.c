/*
 * h_tls_churn --- C11 under key churn: keys are created (with one of two
 * destructors, or none) and deleted concurrently on all workers while threads
 * holding values under live keys terminate.
 *
 *  user thread, per cycle:  k = key_create(fn);  children store &rec under k (some clear
 *      it again) and terminate by return / myth_exit / cancellation;  join;  rec.calls
 *      must be 1 iff fn != 0 and the value was non-NULL at exit, and the call must have
 *      come from fn, not from the destructor a former owner of the key index registered;
 *      key_delete(k) only after the joins, so the key is live for the children's whole life.
 *  churner thread: key_create(fn or 0); key_delete; in a loop (slot turnover: the free
 *      list is LIFO, so users keep getting indices that were released an instant ago).
 * args: seed= users= churners= cycles= nw=
 */
#ifndef _GNU_SOURCE
#define _GNU_SOURCE
#endif
#include <errno.h>
#include "hkm.h"

#define NK 1024
#define REC_MAGIC 0x7ec0c0deu

typedef struct {
  uint32_t magic;
  int key;
  int which;              /* 0 none, 1 dtor_a, 2 dtor_b */
  int end_kind;
  int clear;              /* child stores NULL again before terminating */
  _Atomic int calls;
  _Atomic int wrong_calls;
} rec_t;

static _Atomic int g_live[NK];
static _Atomic int g_stop;
static _Atomic long g_user_cycles, g_churn_cycles, g_children, g_expected, g_observed, g_null_calls,
  g_expected_none, g_reused_fresh_index, g_keys_with_a, g_keys_with_b, g_keys_without;
static _Atomic int g_last_released = -1;

static void dtor_common(int me, void * val) {
  if (!val) { atomic_fetch_add(&g_null_calls, 1); return; }
  rec_t * rc = (rec_t *)val;
  HK_CHECK(rc->magic == REC_MAGIC, "tls-dtor:wrong-value", "destructor %c called with %p which is not a value stored by this program", me == 1 ? 'A' : 'B', val);
  if (rc->which != me) { atomic_fetch_add(&rc->wrong_calls, 1); return; }
  atomic_fetch_add(&rc->calls, 1);
}
static void dtor_a(void * v) { dtor_common(1, v); }
static void dtor_b(void * v) { dtor_common(2, v); }
static void (*const g_fn[3])(void *) = { 0, dtor_a, dtor_b };

static int key_new(int which) {
  myth_key_t k = -1;
  int rc = myth_key_create(&k, g_fn[which]);
  HK_CHECK(rc == 0, "tls-key:create-failed", "key_create returned %d with far fewer than %d keys live", rc, NK);
  HK_CHECK(k >= 0 && k < NK, "tls-key:index-range", "key_create returned index %d", k);
  if (k == atomic_load(&g_last_released)) atomic_fetch_add(&g_reused_fresh_index, 1);
  int was = atomic_exchange(&g_live[k], 1);
  HK_CHECK(was == 0, "tls-key:duplicate-live-index", "key_create returned index %d which is still live", k);
  return k;
}
static void key_del(int k) {
  atomic_store(&g_live[k], 0);
  atomic_store(&g_last_released, k);
  int rc = myth_key_delete(k);
  HK_CHECK(rc == 0, "tls-key:delete-live-failed", "key_delete(%d) of a live key returned %d", k, rc);
}

static __attribute__((noinline)) void finish_thread(int kind) {
  if (kind == 1) myth_exit((void *)0x11);
  if (kind == 2) {
    myth_cancel(myth_self());
    myth_testcancel();
    HK_FAIL("tls:cancel", "myth_testcancel returned although cancellation was requested");
  }
}

static void * child(void * a) {
  rec_t * rc = (rec_t *)a;
  void * g = myth_getspecific(rc->key);
  HK_CHECK(g == 0, "tls:inherited-value", "new thread reads %p under the freshly created key %d before storing anything", g, rc->key);
  int r = myth_setspecific(rc->key, rc);
  HK_CHECK(r == 0, "tls:set-rc", "setspecific(key %d) returned %d", rc->key, r);
  hk_work(200);
  if (rc->end_kind != 2) myth_yield();
  HK_CHECK(myth_getspecific(rc->key) == rc, "tls:get-mismatch", "key %d does not read back the stored value", rc->key);
  if (rc->clear) myth_setspecific(rc->key, 0);
  finish_thread(rc->end_kind);
  return (void *)0x22;
}

static void * user(void * a_) {
  hkm_targ_t * a = (hkm_targ_t *)a_;
  hk_rng_t r; hk_rng_seed(&r, a->rseed, 91);
  long cycles = (long)(intptr_t)a->user, c;
  for (c = 0; c < cycles; c++) {
    int which = (int)hk_below(&r, 5); which = which == 0 ? 0 : 1 + (which & 1);
    int k = key_new(which);
    atomic_fetch_add(which == 0 ? &g_keys_without : which == 1 ? &g_keys_with_a : &g_keys_with_b, 1);
    int nch = 1 + (int)hk_below(&r, 3), i;
    rec_t rec[3];
    myth_thread_t id[3];
    for (i = 0; i < nch; i++) {
      rec[i].magic = REC_MAGIC; rec[i].key = k; rec[i].which = which;
      rec[i].end_kind = (int)hk_below(&r, 3); rec[i].clear = hk_below(&r, 6) == 0;
      atomic_store(&rec[i].calls, 0); atomic_store(&rec[i].wrong_calls, 0);
      id[i] = myth_create(child, &rec[i]);
    }
    for (i = 0; i < nch; i++) myth_join(id[i], 0);
    for (i = 0; i < nch; i++) {
      int want = (which != 0 && !rec[i].clear) ? 1 : 0;
      int got = atomic_load(&rec[i].calls), wrong = atomic_load(&rec[i].wrong_calls);
      atomic_fetch_add(&g_children, 1);
      atomic_fetch_add(want ? &g_expected : &g_expected_none, 1);
      atomic_fetch_add(&g_observed, got);
      HK_CHECK(wrong == 0, "tls-dtor:churn:stale-destructor", "key %d was created with %s but the other destructor (registered by a former owner of that index) ran %d time(s) for a thread's value",
               k, which == 0 ? "no destructor" : which == 1 ? "destructor A" : "destructor B", wrong);
      if (got != want) {
        HK_FAIL(got < want ? "tls-dtor:churn:missed" : "tls-dtor:churn:unexpected",
                "cycle %ld of user %d: key %d (created with %s, live until after the join); the child (end kind %d) held a %s value at exit: destructor ran %d time(s), expected %d",
                c, a->idx, k, which == 0 ? "no destructor" : "a destructor", rec[i].end_kind, rec[i].clear ? "NULL" : "non-NULL", got, want);
      }
    }
    key_del(k);
    atomic_fetch_add(&g_user_cycles, 1);
  }
  return 0;
}

static void * churner(void * a_) {
  hkm_targ_t * a = (hkm_targ_t *)a_;
  hk_rng_t r; hk_rng_seed(&r, a->rseed, 92);
  long n = 0;
  while (!atomic_load(&g_stop) && n < 50000000) {
    int which = (int)hk_below(&r, 3);
    int k = key_new(which);
    if (hk_below(&r, 4) == 0) hk_work((unsigned)hk_below(&r, 50));
    key_del(k);
    n++;
    if ((n & 7) == 0) myth_yield();
  }
  atomic_fetch_add(&g_churn_cycles, n);
  return 0;
}

int main(int argc, char ** argv) {
  hk_init(argc, argv);
  uint64_t seed = hk_seed();
  int users = (int)hk_arg("users", 4), churners = (int)hk_arg("churners", 4);
  long cycles = hk_arg("cycles", 300);
  if (users > 32) users = 32;
  if (churners > 32) churners = 32;
  hkm_setup();
  hk_rng_t r; hk_rng_seed(&r, seed, 90);
  /* a few long-lived keys so that the churned indices are not always 0..n */
  int base = (int)hk_below(&r, 40), i;
  for (i = 0; i < base; i++) key_new((int)hk_below(&r, 3));
  hkm_targ_t ua[32], ca[32];
  myth_thread_t uid[32], cid[32];
  for (i = 0; i < churners; i++) { ca[i].idx = i; ca[i].rseed = hk_rand(&r); ca[i].user = 0; cid[i] = myth_create(churner, &ca[i]); }
  for (i = 0; i < users; i++) { ua[i].idx = i; ua[i].rseed = hk_rand(&r); ua[i].user = (void *)(intptr_t)cycles; uid[i] = myth_create(user, &ua[i]); }
  for (i = 0; i < users; i++) myth_join(uid[i], 0);
  atomic_store(&g_stop, 1);
  for (i = 0; i < churners; i++) myth_join(cid[i], 0);
  hk_sample("%d users x %ld cycles (create key with destructor A/B/none; 1-3 children store a record, some clear it; end by return/myth_exit/cancel; join; check; delete) against %d churners (%ld create/delete cycles), %d long-lived keys",
            users, cycles, churners, atomic_load(&g_churn_cycles), base);
  hk_report("user_cycles", atomic_load(&g_user_cycles));
  hk_report("churner_cycles", atomic_load(&g_churn_cycles));
  hk_report("children", atomic_load(&g_children));
  hk_report("destructor_calls_expected", atomic_load(&g_expected));
  hk_report("destructor_calls_with_own_value", atomic_load(&g_observed));
  hk_report("children_expecting_no_call", atomic_load(&g_expected_none));
  hk_report("destructor_calls_with_null_value", atomic_load(&g_null_calls));
  hk_report("creates_that_got_the_index_released_last", atomic_load(&g_reused_fresh_index));
  hk_report("keys_with_destructor_a", atomic_load(&g_keys_with_a));
  hk_report("keys_with_destructor_b", atomic_load(&g_keys_with_b));
  hk_report("keys_without_destructor", atomic_load(&g_keys_without));
  hk_report("workers", myth_get_num_workers());
  return hk_finish();
}
