/*
 * h_wsq_unit --- C02 unit harness: the real queue code (src/myth_wsqueue_func.h
 * and the wsapi take/peek/pass in the library) on a small queue, driven by real
 * OS threads.  Sequential phase: random op sequences against a reference deque.
 * Concurrent phase: one owner (push/pop/put), several thieves (take, take with a
 * declining decision callback, trypass, peek); a fixed pool of tickets, each with
 * a state word; conservation and exactly-once at every hand-over.
 * args: seed= size=<queue capacity> thieves= ops= seq_rounds=
 */
#ifndef _GNU_SOURCE
#define _GNU_SOURCE
#endif
#include <pthread.h>
#include <stdatomic.h>
#include "myth/myth.h"
#include "myth_config.h"
#include "myth_worker.h"
#include "myth_thread.h"
#include "myth_wsqueue_func.h"
#include "hk.h"

extern myth_running_env_t g_envs;
extern int g_envs_sz;

static myth_running_env * g_env;      /* one fake worker: only its run queue is used */
static myth_thread_queue_t Q;
static int g_size;

enum { T_HELD = 0, T_INQ = 1 };
typedef struct { struct myth_thread th; _Atomic int state; _Atomic long ins; _Atomic long obt; int idx; } ticket_t;
static ticket_t * g_tk;
static int g_ntk;

static ticket_t * tk_of(myth_thread_t th) {
  ticket_t * t = (ticket_t *)th;   /* th is the first member */
  HK_CHECK(t >= g_tk && t < g_tk + g_ntk && (char *)t == (char *)&g_tk[t - g_tk], "wsq:garbage-entry",
           "queue returned pointer %p which is not a ticket", (void *)th);
  return t;
}

static void q_setup(int size) {
  static myth_running_env envs[1];
  memset(envs, 0, sizeof(envs));
  g_env = &envs[0];
  g_envs = g_env; g_envs_sz = 1;
  Q = &g_env->runnable_q;
  myth_queue_init(Q);
  /* shrink to the requested capacity (what MYTH_VERIF_QUEUE_SIZE does for the library build) */
  free(Q->ptr);
  Q->size = size;
  Q->ptr = (struct myth_thread **)calloc((size_t)size, sizeof(struct myth_thread *));
  Q->base = Q->top = size / 2;
  g_size = size;
}

static void mark_inserted(ticket_t * t, const char * op) {
  int e = T_HELD;
  HK_CHECK(atomic_compare_exchange_strong(&t->state, &e, T_INQ), "wsq:harness", "%s: ticket %d inserted while in queue", op, t->idx);
  atomic_fetch_add(&t->ins, 1);
}
static void unmark_inserted(ticket_t * t) { atomic_store(&t->state, T_HELD); atomic_fetch_sub(&t->ins, 1); }
static void mark_obtained(ticket_t * t, const char * op, int who) {
  int e = T_INQ;
  if (!atomic_compare_exchange_strong(&t->state, &e, T_HELD)) {
    HK_FAIL("wsq:duplicate", "%s by participant %d obtained ticket %d which is not in the queue (already held: obtained twice); inserted %ld times, obtained %ld times",
            op, who, t->idx, atomic_load(&t->ins), atomic_load(&t->obt) + 1);
  }
  atomic_fetch_add(&t->obt, 1);
}

static int decline_always(myth_thread_t th, void * u) { (void)th; (void)u; return 0; }

/* ------------------------------------------------------------------ sequential phase */
static long seq_phase(hk_rng_t * r, int rounds) {
  long ops = 0;
  int cap = g_size;
  ticket_t ** model = (ticket_t **)calloc((size_t)cap + 4, sizeof(ticket_t *));
  int k;
  for (k = 0; k < rounds; k++) {
    int n = 0, i;       /* model[0..n) : index 0 = base side, n-1 = top side */
    int steps = 20 + (int)hk_below(r, 400);
    for (i = 0; i < g_ntk; i++) HK_CHECK(atomic_load(&g_tk[i].state) == T_HELD, "wsq:harness", "ticket %d not free", i);
    for (i = 0; i < steps; i++, ops++) {
      int op = (int)hk_below(r, 9);
      ticket_t * free_t = 0;
      int j;
      for (j = 0; j < g_ntk; j++) if (atomic_load(&g_tk[j].state) == T_HELD) { free_t = &g_tk[j]; break; }
      switch (op) {
      case 0: case 1:   /* push */
        if (!free_t || n >= cap - 1) break;
        mark_inserted(free_t, "push");
        myth_queue_push(Q, &free_t->th);
        model[n++] = free_t;
        break;
      case 2: {         /* pop */
        myth_thread_t th = myth_queue_pop(Q);
        if (n == 0) { HK_CHECK(th == 0, "wsq:seq-mismatch", "pop on an empty queue returned %p", (void *)th); break; }
        HK_CHECK(th == &model[n - 1]->th, "wsq:seq-mismatch", "pop returned %s, model says ticket %d",
                 th ? "another ticket" : "NULL", model[n - 1]->idx);
        mark_obtained(tk_of(th), "pop", 0);
        n--;
        break;
      }
      case 3: {         /* put (base side) */
        if (!free_t || n >= cap - 1) break;
        mark_inserted(free_t, "put");
        myth_queue_put(Q, &free_t->th);
        memmove(model + 1, model, sizeof(ticket_t *) * (size_t)n);
        model[0] = free_t; n++;
        break;
      }
      case 4: {         /* take */
        myth_thread_t th = myth_queue_take(Q);
        if (n == 0) { HK_CHECK(th == 0, "wsq:seq-mismatch", "take on an empty queue returned %p", (void *)th); break; }
        HK_CHECK(th == &model[0]->th, "wsq:seq-mismatch", "take returned %s, model says ticket %d", th ? "another ticket" : "NULL", model[0]->idx);
        mark_obtained(tk_of(th), "take", 0);
        memmove(model, model + 1, sizeof(ticket_t *) * (size_t)(n - 1)); n--;
        break;
      }
      case 5: {         /* trypass */
        if (!free_t || n >= cap - 1) break;
        int base_before = Q->base;
        mark_inserted(free_t, "trypass");
        int ok = myth_queue_trypass(Q, &free_t->th);
        if (ok) { memmove(model + 1, model, sizeof(ticket_t *) * (size_t)n); model[0] = free_t; n++; }
        else { unmark_inserted(free_t); HK_CHECK(base_before == 0, "wsq:seq-mismatch", "trypass failed although base was %d", base_before); }
        break;
      }
      case 6: {         /* peek (not part of the interface the scheduler uses; must not disturb) */
        myth_thread_t th = myth_queue_peek(Q);
        HK_CHECK((n == 0 && th == 0) || (n > 0 && th == &model[0]->th), "wsq:seq-mismatch", "peek disagrees with the model (n=%d)", n);
        break;
      }
      case 7: {         /* wsapi take: first with a callback that declines (candidate must stay), then accepting */
        if (hk_below(r, 2)) {
          myth_thread_t d = myth_wsapi_runqueue_take(0, decline_always, 0);
          HK_CHECK(d == 0, "wsq:declined-steal-removed-candidate", "a steal whose decision callback declined returned %p", (void *)d);
          HK_CHECK(Q->top - Q->base == n, "wsq:declined-steal-removed-candidate", "declined steal changed the queue: %d entries, model %d", Q->top - Q->base, n);
          myth_thread_t pk = myth_queue_peek(Q);
          HK_CHECK((n == 0 && pk == 0) || (n > 0 && pk == &model[0]->th), "wsq:declined-steal-removed-candidate", "after a declined steal the base entry changed");
          break;
        }
        myth_thread_t th = myth_wsapi_runqueue_take(0, (myth_wsapi_decidefn_t)0, 0);
        if (n == 0) { HK_CHECK(th == 0, "wsq:seq-mismatch", "wsapi take on an empty queue returned %p", (void *)th); break; }
        HK_CHECK(th == &model[0]->th, "wsq:seq-mismatch", "wsapi take returned %s, model says ticket %d", th ? "another" : "NULL", model[0]->idx);
        mark_obtained(tk_of(th), "wsapi_take", 0);
        memmove(model, model + 1, sizeof(ticket_t *) * (size_t)(n - 1)); n--;
        break;
      }
      default: {        /* wsapi peek */
        char buf[16]; size_t sz = sizeof(buf);
        (void)myth_wsapi_runqueue_peek(0, buf, &sz);
        break;
      }
      }
      HK_CHECK(Q->top - Q->base == n, "wsq:seq-mismatch", "queue holds %d entries, model %d", Q->top - Q->base, n);
    }
    /* drain alternately from both ends */
    while (n > 0) {
      if (hk_below(r, 2)) {
        myth_thread_t th = myth_queue_pop(Q);
        HK_CHECK(th == &model[n - 1]->th, "wsq:seq-mismatch", "drain pop mismatch");
        mark_obtained(tk_of(th), "pop", 0); n--;
      } else {
        myth_thread_t th = myth_queue_take(Q);
        HK_CHECK(th == &model[0]->th, "wsq:seq-mismatch", "drain take mismatch");
        mark_obtained(tk_of(th), "take", 0);
        memmove(model, model + 1, sizeof(ticket_t *) * (size_t)(n - 1)); n--;
      }
    }
    HK_CHECK(myth_queue_pop(Q) == 0 && myth_queue_take(Q) == 0, "wsq:seq-mismatch", "queue not empty after drain");
  }
  free(model);
  return ops;
}

/* ------------------------------------------------------------------ concurrent phase */
/* tickets a thief obtained go back to the owner through a lock-free return stack */
static _Atomic(ticket_t *) g_ret_head;
static _Atomic(ticket_t *) * g_ret_next;
static _Atomic int g_stop;
static _Atomic long g_owner_ops, g_thief_takes, g_thief_declines, g_thief_passes, g_thief_peeks, g_owner_pops, g_owner_got;
static int g_nthieves;

static void ret_push(ticket_t * t) {
  ticket_t * h = atomic_load(&g_ret_head);
  do { atomic_store(&g_ret_next[t->idx], h); } while (!atomic_compare_exchange_weak(&g_ret_head, &h, t));
}
/* single consumer (the owner) takes the whole stack */
static ticket_t * ret_take_all(void) { return atomic_exchange(&g_ret_head, (ticket_t *)0); }

static int decline_cb(myth_thread_t th, void * u) { (void)th; uint64_t * x = (uint64_t *)u; *x = hk_mix(*x); return (int)(*x & 1); }

static void * thief_main(void * a_) {
  int me = (int)(intptr_t)a_;
  hk_rng_t r; hk_rng_seed(&r, hk_seed(), 1000 + (uint64_t)me);
  uint64_t dstate = hk_rand(&r);
  (void)myth_verif_seed(me, 1);     /* registers this OS thread with the hook runtime's RNG */
  while (!atomic_load(&g_stop)) {
    int op = (int)hk_below(&r, 8);
    myth_thread_t th = 0;
    if (op < 3) {
      th = myth_queue_take(Q);
      if (th) { mark_obtained(tk_of(th), "take", me); atomic_fetch_add(&g_thief_takes, 1); }
    } else if (op < 5) {
      uint64_t before = dstate;
      th = myth_wsapi_runqueue_take(0, decline_cb, &dstate);
      if (th) { mark_obtained(tk_of(th), "wsapi_take", me); atomic_fetch_add(&g_thief_takes, 1); }
      else if (dstate != before) atomic_fetch_add(&g_thief_declines, 1);
    } else if (op < 6) {
      char buf[16]; size_t sz = sizeof(buf);
      (void)myth_wsapi_runqueue_peek(0, buf, &sz);
      (void)myth_queue_peek(Q);
      atomic_fetch_add(&g_thief_peeks, 1);
    } else {
      th = myth_queue_take(Q);
      if (th) {
        ticket_t * t = tk_of(th);
        mark_obtained(t, "take", me);
        atomic_fetch_add(&g_thief_takes, 1);
        /* give it straight back at the base side, like a pass to this worker */
        mark_inserted(t, "trypass");
        if (myth_queue_trypass(Q, th)) { atomic_fetch_add(&g_thief_passes, 1); th = 0; }
        else unmark_inserted(t);
      }
    }
    if (th) ret_push(tk_of(th));
    if (hk_below(&r, 16) == 0) sched_yield();
  }
  return 0;
}

static long concurrent_phase(hk_rng_t * r, long ops, int nthieves) {
  pthread_t th[16];
  int i;
  atomic_store(&g_stop, 0);
  atomic_store(&g_ret_head, (ticket_t *)0);
  g_nthieves = nthieves;
  for (i = 0; i < nthieves; i++) pthread_create(&th[i], 0, thief_main, (void *)(intptr_t)(i + 1));
  /* owner: holds some tickets in hand[]; everything else is in the queue, with a thief, or on the return stack */
  ticket_t ** hand = (ticket_t **)calloc((size_t)g_ntk, sizeof(ticket_t *));
  int nh = 0;
  for (i = 0; i < g_ntk; i++) hand[nh++] = &g_tk[i];
  long k;
  for (k = 0; k < ops; k++) {
    ticket_t * t = ret_take_all();
    while (t) { ticket_t * nx = atomic_load(&g_ret_next[t->idx]); hand[nh++] = t; t = nx; }
    int op = (int)hk_below(r, 10);
    if (op < 4 && nh > 0) {
      ticket_t * x = hand[--nh];
      mark_inserted(x, "push");
      myth_queue_push(Q, &x->th);
    } else if (op < 5 && nh > 0) {
      ticket_t * x = hand[--nh];
      mark_inserted(x, "put");
      myth_queue_put(Q, &x->th);
    } else {
      myth_thread_t y = myth_queue_pop(Q);
      atomic_fetch_add(&g_owner_pops, 1);
      if (y) { ticket_t * x = tk_of(y); mark_obtained(x, "pop", 0); hand[nh++] = x; atomic_fetch_add(&g_owner_got, 1); }
    }
    if ((k & 1023) == 0 && hk_below(r, 4) == 0) sched_yield();
  }
  atomic_store(&g_stop, 1);
  for (i = 0; i < nthieves; i++) pthread_join(th[i], 0);
  /* quiescence: drain */
  {
    ticket_t * t = ret_take_all();
    while (t) { ticket_t * nx = atomic_load(&g_ret_next[t->idx]); hand[nh++] = t; t = nx; }
  }
  long drained = 0;
  for (;;) {
    myth_thread_t y = (drained & 1) ? myth_queue_pop(Q) : myth_queue_take(Q);
    if (!y) { y = myth_queue_pop(Q); if (!y) break; }
    ticket_t * x = tk_of(y);
    mark_obtained(x, "drain", 0);
    hand[nh++] = x;
    drained++;
  }
  HK_CHECK(nh == g_ntk, "wsq:lost", "conservation broken at quiescence: %d of %d tickets accounted for (queue top-base=%d); a ticket inserted once was obtained by nobody",
           nh, g_ntk, Q->top - Q->base);
  for (i = 0; i < g_ntk; i++) {
    HK_CHECK(atomic_load(&g_tk[i].state) == T_HELD, "wsq:lost", "ticket %d still marked in-queue after the drain", i);
    HK_CHECK(atomic_load(&g_tk[i].ins) == atomic_load(&g_tk[i].obt), "wsq:lost", "ticket %d inserted %ld times but obtained %ld times",
             i, atomic_load(&g_tk[i].ins), atomic_load(&g_tk[i].obt));
  }
  free(hand);
  atomic_fetch_add(&g_owner_ops, ops);
  return drained;
}

int main(int argc, char ** argv) {
  hk_init(argc, argv);
  uint64_t seed = hk_seed();
  int size = (int)hk_arg("size", 8);
  int thieves = (int)hk_arg("thieves", 2);
  long ops = hk_arg("ops", 200000);
  int seq_rounds = (int)hk_arg("seq_rounds", 200);
  if (thieves > 15) thieves = 15;
  q_setup(size);
  g_ntk = size - 1;                 /* pool never exceeds capacity - 1: no overflow by construction */
  if (hk_arg("pool", 0) > 0 && hk_arg("pool", 0) < g_ntk) g_ntk = (int)hk_arg("pool", 0);
  g_tk = (ticket_t *)calloc((size_t)g_ntk, sizeof(ticket_t));
  g_ret_next = (_Atomic(ticket_t *) *)calloc((size_t)g_ntk, sizeof(_Atomic(ticket_t *)));
  int i;
  for (i = 0; i < g_ntk; i++) g_tk[i].idx = i;
  hk_rng_t r; hk_rng_seed(&r, seed, 99);
  long sops = seq_phase(&r, seq_rounds);
  long drained = 0;
  if (thieves > 0 && ops > 0) drained = concurrent_phase(&r, ops, thieves);
  long ins = 0;
  for (i = 0; i < g_ntk; i++) ins += atomic_load(&g_tk[i].ins);
  hk_sample("capacity %d, pool %d tickets, %ld sequential ops vs reference deque, then %ld owner ops against %d thieves", size, g_ntk, sops, ops, thieves);
  hk_report("capacity", size);
  hk_report("sequential_ops", sops);
  hk_report("owner_ops", atomic_load(&g_owner_ops));
  hk_report("insertions", ins);
  hk_report("owner_pops_ok", atomic_load(&g_owner_got));
  hk_report("thief_takes_ok", atomic_load(&g_thief_takes));
  hk_report("thief_declines", atomic_load(&g_thief_declines));
  hk_report("thief_passes_ok", atomic_load(&g_thief_passes));
  hk_report("thief_peeks", atomic_load(&g_thief_peeks));
  hk_report("drained_at_quiescence", drained);
  return hk_finish();
}
