/*
 * h_tls_unit --- C10 unit harness on the real per-thread store and key allocator
 * (src/myth_tls_func.h): (a) random set/get sequences over all 1024 indices
 * against a dictionary, out-of-range keys; (b) key allocator create/delete
 * sequences against a set model up to exhaustion; (c) concurrent create/delete
 * by real OS threads with a liveness mark per key (no key handed out while
 * live) and a free-list walk at quiescence.
 * args: seed= rounds= threads= cops=
 */
#ifndef _GNU_SOURCE
#define _GNU_SOURCE
#endif
#include <pthread.h>
#include <stdatomic.h>
#include <limits.h>
#include <errno.h>
#include "myth/myth.h"
#include "myth_config.h"
#include "myth_tls_func.h"
#include "hk.h"

#define NK 1024

/* ------------------------------------------------------------------ (a) tree vs dictionary */
static long tree_phase(hk_rng_t * r, int rounds) {
  long ops = 0;
  int k;
  static myth_tls_key_allocator_t ka_nodtor;   /* no destructors registered: fini only tears down */
  myth_tls_key_allocator_init(&ka_nodtor);
  for (k = 0; k < rounds; k++) {
    myth_tls_tree_t * t = (myth_tls_tree_t *)malloc(sizeof(myth_tls_tree_t));
    memset(t, 0xa5, sizeof(*t));           /* a recycled descriptor holds garbage */
    myth_tls_tree_init(t);
    void * dict[NK];
    memset(dict, 0, sizeof(dict));
    int shape = (int)hk_below(r, 6);
    int steps = 10 + (int)hk_below(r, 600);
    int i;
    for (i = 0; i < steps; i++, ops++) {
      int key;
      switch (shape) {
      case 0: key = (int)hk_below(r, NK); break;                          /* anywhere */
      case 1: key = (int)hk_below(r, 16); break;                          /* first leaf only */
      case 2: key = 16 * (int)hk_below(r, 64) + (int)hk_below(r, 2); break; /* one or two per leaf: many leaves */
      case 3: key = 256 * (int)hk_below(r, 4) + (int)hk_below(r, 3); break; /* one leaf per top-level branch */
      case 4: key = NK - 1 - (int)hk_below(r, 40); break;                 /* high keys, lower branches empty */
      default: key = (int)(hk_below(r, 4) * 64 + 300); break;             /* a few keys in the middle */
      }
      if (hk_below(r, 3) == 0) {
        void * g = myth_tls_tree_get(t, key);
        HK_CHECK(g == dict[key], "tls:get-mismatch", "get(key %d) returned %p, last set was %p", key, g, dict[key]);
      } else {
        void * v = hk_below(r, 8) == 0 ? 0 : (void *)(uintptr_t)(hk_rand(r) | 1);
        int rc = myth_tls_tree_set(t, key, v);
        HK_CHECK(rc == 0, "tls:set-rc", "set(key %d) returned %d", key, rc);
        dict[key] = v;
      }
      if ((i & 31) == 0) {
        /* out-of-range keys are rejected and change nothing */
        static const int bad[] = { -1, NK, NK + 1, INT_MAX, INT_MIN, 4096, -1024 };
        int b = bad[hk_below(r, sizeof(bad) / sizeof(bad[0]))];
        HK_CHECK(myth_tls_tree_get(t, b) == 0, "tls:out-of-range-accepted", "get(key %d) returned non-NULL", b);
        HK_CHECK(myth_tls_tree_set(t, b, (void *)8) == EINVAL, "tls:out-of-range-accepted", "set(key %d) did not return EINVAL", b);
      }
    }
    /* full read-back: every key reads what was last stored, all others NULL */
    for (i = 0; i < NK; i++) {
      void * g = myth_tls_tree_get(t, i);
      HK_CHECK(g == dict[i], "tls:get-mismatch", "final read-back: key %d holds %p, expected %p (shape %d)", i, g, dict[i], shape);
    }
    ops += NK;
    myth_tls_tree_fini(t, &ka_nodtor);
    free(t);
  }
  return ops;
}

/* ------------------------------------------------------------------ (b) allocator vs set model */
static void walk_free_list(myth_tls_key_allocator_t * ka, const unsigned char * live, const char * when) {
  static unsigned char seen[NK];
  memset(seen, 0, sizeof(seen));
  long n = 0, nlive = 0;
  int i;
  myth_tls_key_entry_t * e = ka->free;
  while (e) {
    HK_CHECK(e >= ka->keys && e < ka->keys + NK, "tls-key:free-list-corrupt", "%s: free list points outside the table (%p)", when, (void *)e);
    int idx = (int)(e - ka->keys);
    HK_CHECK(!seen[idx], "tls-key:free-list-corrupt", "%s: free list has a cycle at key %d", when, idx);
    seen[idx] = 1;
    HK_CHECK(!live[idx], "tls-key:live-key-on-free-list", "%s: key %d is live but sits on the free list", when, idx);
    HK_CHECK(e->next != (myth_tls_key_entry_t *)-1, "tls-key:free-list-corrupt", "%s: entry %d on the free list carries the in-use mark", when, idx);
    n++;
    HK_CHECK(n <= NK, "tls-key:free-list-corrupt", "%s: free list longer than the table", when);
    e = e->next;
  }
  for (i = 0; i < NK; i++) nlive += live[i];
  HK_CHECK(n + nlive == NK, "tls-key:free-list-corrupt", "%s: %ld free + %ld live != %d", when, n, nlive, NK);
}

static long alloc_phase(hk_rng_t * r, int rounds) {
  long ops = 0;
  int k;
  for (k = 0; k < rounds; k++) {
    static myth_tls_key_allocator_t ka;
    myth_tls_key_allocator_init(&ka);
    unsigned char live[NK];
    memset(live, 0, sizeof(live));
    int nlive = 0, i;
    int steps = 50 + (int)hk_below(r, 3000);
    int fill = (int)hk_below(r, 3) == 0;    /* drive to exhaustion */
    for (i = 0; i < steps; i++, ops++) {
      int do_create = fill ? (nlive < NK ? hk_below(r, 10) != 0 : 0) : (int)hk_below(r, 2);
      if (do_create || nlive == 0) {
        int key = myth_tls_key_allocator_alloc(&ka, 0);
        if (nlive == NK) { HK_CHECK(key == -1, "tls-key:limit", "create #%d succeeded with key %d", NK + 1, key); continue; }
        HK_CHECK(key >= 0 && key < NK, "tls-key:bad-key", "create returned %d with %d keys live", key, nlive);
        HK_CHECK(!live[key], "tls-key:duplicate-live-key", "create returned key %d which is still live", key);
        live[key] = 1; nlive++;
      } else {
        int key = (int)hk_below(r, NK);
        myth_tls_destructor_fun_t f = myth_tls_key_allocator_dealloc(&ka, key);
        if (live[key]) { HK_CHECK(f != (myth_tls_destructor_fun_t)-1, "tls-key:delete-live-failed", "delete of live key %d failed", key); live[key] = 0; nlive--; }
        else HK_CHECK(f == (myth_tls_destructor_fun_t)-1, "tls-key:double-delete-accepted", "delete of dead key %d succeeded", key);
      }
      if ((i & 63) == 0) {
        static const int bad[] = { -1, NK, INT_MAX, INT_MIN };
        HK_CHECK(myth_tls_key_allocator_dealloc(&ka, bad[hk_below(r, 4)]) == (myth_tls_destructor_fun_t)-1, "tls:out-of-range-accepted", "delete of an out-of-range key succeeded");
      }
    }
    if (fill) {
      while (nlive < NK) { int key = myth_tls_key_allocator_alloc(&ka, 0); HK_CHECK(key >= 0 && key < NK && !live[key], "tls-key:duplicate-live-key", "fill: create returned %d", key); live[key] = 1; nlive++; ops++; }
      HK_CHECK(myth_tls_key_allocator_alloc(&ka, 0) == -1, "tls-key:limit", "create beyond %d keys succeeded", NK);
      int key = (int)hk_below(r, NK);
      HK_CHECK(myth_tls_key_allocator_dealloc(&ka, key) != (myth_tls_destructor_fun_t)-1, "tls-key:delete-live-failed", "delete at exhaustion failed");
      int k2 = myth_tls_key_allocator_alloc(&ka, 0);
      HK_CHECK(k2 == key, "tls-key:limit", "after deleting key %d at exhaustion create returned %d", key, k2);
    }
    walk_free_list(&ka, live, "sequential");
  }
  return ops;
}

/* ------------------------------------------------------------------ (c) concurrent create/delete */
static myth_tls_key_allocator_t g_ka;
static _Atomic unsigned char g_live[NK];
static _Atomic long g_creates, g_deletes;
static long g_cops;

static void * alloc_thread(void * a_) {
  int me = (int)(intptr_t)a_;
  hk_rng_t r; hk_rng_seed(&r, hk_seed(), 500 + (uint64_t)me);
  int mine[64], n = 0;
  long i;
  for (i = 0; i < g_cops; i++) {
    if (n < 64 && (n == 0 || hk_below(&r, 2))) {
      int key = myth_tls_key_allocator_alloc(&g_ka, 0);
      if (key == -1) continue;
      HK_CHECK(key >= 0 && key < NK, "tls-key:bad-key", "create returned %d", key);
      unsigned char was = atomic_exchange(&g_live[key], 1);
      HK_CHECK(!was, "tls-key:duplicate-live-key", "OS thread %d: create returned key %d while another holder still has it live", me, key);
      mine[n++] = key;
      atomic_fetch_add(&g_creates, 1);
    } else {
      int j = (int)hk_below(&r, (uint64_t)n);
      int key = mine[j];
      mine[j] = mine[--n];
      atomic_store(&g_live[key], 0);      /* not live from the moment we ask for deletion */
      myth_tls_destructor_fun_t f = myth_tls_key_allocator_dealloc(&g_ka, key);
      HK_CHECK(f != (myth_tls_destructor_fun_t)-1, "tls-key:delete-live-failed", "delete of live key %d failed", key);
      atomic_fetch_add(&g_deletes, 1);
    }
  }
  while (n > 0) { int key = mine[--n]; atomic_store(&g_live[key], 0); myth_tls_key_allocator_dealloc(&g_ka, key); }
  return 0;
}

static void concurrent_phase(int nthreads, long cops) {
  pthread_t th[16];
  int i;
  myth_tls_key_allocator_init(&g_ka);
  for (i = 0; i < NK; i++) atomic_store(&g_live[i], 0);
  g_cops = cops;
  for (i = 0; i < nthreads; i++) pthread_create(&th[i], 0, alloc_thread, (void *)(intptr_t)i);
  for (i = 0; i < nthreads; i++) pthread_join(th[i], 0);
  unsigned char live[NK];
  for (i = 0; i < NK; i++) live[i] = atomic_load(&g_live[i]);
  walk_free_list(&g_ka, live, "after concurrent create/delete");
}

int main(int argc, char ** argv) {
  hk_init(argc, argv);
  uint64_t seed = hk_seed();
  int rounds = (int)hk_arg("rounds", 300);
  int threads = (int)hk_arg("threads", 4);
  long cops = hk_arg("cops", 100000);
  if (threads > 16) threads = 16;
  hk_rng_t r; hk_rng_seed(&r, seed, 77);
  long t_ops = tree_phase(&r, rounds);
  long a_ops = alloc_phase(&r, rounds / 4 + 1);
  if (threads > 0 && cops > 0) concurrent_phase(threads, cops);
  hk_sample("%d random set/get sequences (6 key-subset shapes) vs dictionary; %d create/delete sequences vs set model; %d OS threads x %ld concurrent create/delete ops", rounds, rounds / 4 + 1, threads, cops);
  hk_report("tree_ops", t_ops);
  hk_report("allocator_ops", a_ops);
  hk_report("concurrent_creates", atomic_load(&g_creates));
  hk_report("concurrent_deletes", atomic_load(&g_deletes));
  return hk_finish();
}
