/* generated: one destructor trampoline per key index so that the key identity of a call is known */
static void dtor_body(int key, void * val);
static void dtor_0(void * v) { dtor_body(0, v); }
static void dtor_1(void * v) { dtor_body(1, v); }
static void dtor_2(void * v) { dtor_body(2, v); }
static void dtor_3(void * v) { dtor_body(3, v); }
static void dtor_4(void * v) { dtor_body(4, v); }
static void dtor_5(void * v) { dtor_body(5, v); }
static void dtor_6(void * v) { dtor_body(6, v); }
static void dtor_7(void * v) { dtor_body(7, v); }
static void dtor_8(void * v) { dtor_body(8, v); }
static void dtor_9(void * v) { dtor_body(9, v); }
static void dtor_10(void * v) { dtor_body(10, v); }
static void dtor_11(void * v) { dtor_body(11, v); }
static void dtor_12(void * v) { dtor_body(12, v); }
static void dtor_13(void * v) { dtor_body(13, v); }
static void dtor_14(void * v) { dtor_body(14, v); }
static void dtor_15(void * v) { dtor_body(15, v); }
static void dtor_16(void * v) { dtor_body(16, v); }
static void dtor_17(void * v) { dtor_body(17, v); }
static void dtor_18(void * v) { dtor_body(18, v); }
static void dtor_19(void * v) { dtor_body(19, v); }
static void dtor_20(void * v) { dtor_body(20, v); }
static void dtor_21(void * v) { dtor_body(21, v); }
static void dtor_22(void * v) { dtor_body(22, v); }
static void dtor_23(void * v) { dtor_body(23, v); }
static void dtor_24(void * v) { dtor_body(24, v); }
static void dtor_25(void * v) { dtor_body(25, v); }
static void dtor_26(void * v) { dtor_body(26, v); }
static void dtor_27(void * v) { dtor_body(27, v); }
static void dtor_28(void * v) { dtor_body(28, v); }
static void dtor_29(void * v) { dtor_body(29, v); }
static void dtor_30(void * v) { dtor_body(30, v); }
static void dtor_31(void * v) { dtor_body(31, v); }
static void dtor_32(void * v) { dtor_body(32, v); }
static void dtor_33(void * v) { dtor_body(33, v); }
static void dtor_34(void * v) { dtor_body(34, v); }
static void dtor_35(void * v) { dtor_body(35, v); }
static void dtor_36(void * v) { dtor_body(36, v); }
static void dtor_37(void * v) { dtor_body(37, v); }
static void dtor_38(void * v) { dtor_body(38, v); }
static void dtor_39(void * v) { dtor_body(39, v); }
static void dtor_40(void * v) { dtor_body(40, v); }
static void dtor_41(void * v) { dtor_body(41, v); }
static void dtor_42(void * v) { dtor_body(42, v); }
static void dtor_43(void * v) { dtor_body(43, v); }
static void dtor_44(void * v) { dtor_body(44, v); }
static void dtor_45(void * v) { dtor_body(45, v); }
static void dtor_46(void * v) { dtor_body(46, v); }
static void dtor_47(void * v) { dtor_body(47, v); }
static void dtor_48(void * v) { dtor_body(48, v); }
static void dtor_49(void * v) { dtor_body(49, v); }
static void dtor_50(void * v) { dtor_body(50, v); }
static void dtor_51(void * v) { dtor_body(51, v); }
static void dtor_52(void * v) { dtor_body(52, v); }
static void dtor_53(void * v) { dtor_body(53, v); }
static void dtor_54(void * v) { dtor_body(54, v); }
static void dtor_55(void * v) { dtor_body(55, v); }
static void dtor_56(void * v) { dtor_body(56, v); }
static void dtor_57(void * v) { dtor_body(57, v); }
static void dtor_58(void * v) { dtor_body(58, v); }
static void dtor_59(void * v) { dtor_body(59, v); }
static void dtor_60(void * v) { dtor_body(60, v); }
static void dtor_61(void * v) { dtor_body(61, v); }
static void dtor_62(void * v) { dtor_body(62, v); }
static void dtor_63(void * v) { dtor_body(63, v); }
static void dtor_64(void * v) { dtor_body(64, v); }
static void dtor_65(void * v) { dtor_body(65, v); }
static void dtor_66(void * v) { dtor_body(66, v); }
static void dtor_67(void * v) { dtor_body(67, v); }
static void dtor_68(void * v) { dtor_body(68, v); }
static void dtor_69(void * v) { dtor_body(69, v); }
static void dtor_70(void * v) { dtor_body(70, v); }
static void dtor_71(void * v) { dtor_body(71, v); }
static void dtor_72(void * v) { dtor_body(72, v); }
static void dtor_73(void * v) { dtor_body(73, v); }
static void dtor_74(void * v) { dtor_body(74, v); }
static void dtor_75(void * v) { dtor_body(75, v); }
static void dtor_76(void * v) { dtor_body(76, v); }
static void dtor_77(void * v) { dtor_body(77, v); }
static void dtor_78(void * v) { dtor_body(78, v); }
static void dtor_79(void * v) { dtor_body(79, v); }
static void dtor_80(void * v) { dtor_body(80, v); }
static void dtor_81(void * v) { dtor_body(81, v); }
static void dtor_82(void * v) { dtor_body(82, v); }
static void dtor_83(void * v) { dtor_body(83, v); }
static void dtor_84(void * v) { dtor_body(84, v); }
static void dtor_85(void * v) { dtor_body(85, v); }
static void dtor_86(void * v) { dtor_body(86, v); }
static void dtor_87(void * v) { dtor_body(87, v); }
static void dtor_88(void * v) { dtor_body(88, v); }
static void dtor_89(void * v) { dtor_body(89, v); }
static void dtor_90(void * v) { dtor_body(90, v); }
static void dtor_91(void * v) { dtor_body(91, v); }
static void dtor_92(void * v) { dtor_body(92, v); }
static void dtor_93(void * v) { dtor_body(93, v); }
static void dtor_94(void * v) { dtor_body(94, v); }
static void dtor_95(void * v) { dtor_body(95, v); }
static void dtor_96(void * v) { dtor_body(96, v); }
static void dtor_97(void * v) { dtor_body(97, v); }
static void dtor_98(void * v) { dtor_body(98, v); }
static void dtor_99(void * v) { dtor_body(99, v); }
static void dtor_100(void * v) { dtor_body(100, v); }
static void dtor_101(void * v) { dtor_body(101, v); }
static void dtor_102(void * v) { dtor_body(102, v); }
static void dtor_103(void * v) { dtor_body(103, v); }
static void dtor_104(void * v) { dtor_body(104, v); }
static void dtor_105(void * v) { dtor_body(105, v); }
static void dtor_106(void * v) { dtor_body(106, v); }
static void dtor_107(void * v) { dtor_body(107, v); }
static void dtor_108(void * v) { dtor_body(108, v); }
static void dtor_109(void * v) { dtor_body(109, v); }
static void dtor_110(void * v) { dtor_body(110, v); }
static void dtor_111(void * v) { dtor_body(111, v); }
static void dtor_112(void * v) { dtor_body(112, v); }
static void dtor_113(void * v) { dtor_body(113, v); }
static void dtor_114(void * v) { dtor_body(114, v); }
static void dtor_115(void * v) { dtor_body(115, v); }
static void dtor_116(void * v) { dtor_body(116, v); }
static void dtor_117(void * v) { dtor_body(117, v); }
static void dtor_118(void * v) { dtor_body(118, v); }
static void dtor_119(void * v) { dtor_body(119, v); }
static void dtor_120(void * v) { dtor_body(120, v); }
static void dtor_121(void * v) { dtor_body(121, v); }
static void dtor_122(void * v) { dtor_body(122, v); }
static void dtor_123(void * v) { dtor_body(123, v); }
static void dtor_124(void * v) { dtor_body(124, v); }
static void dtor_125(void * v) { dtor_body(125, v); }
static void dtor_126(void * v) { dtor_body(126, v); }
static void dtor_127(void * v) { dtor_body(127, v); }
static void dtor_128(void * v) { dtor_body(128, v); }
static void dtor_129(void * v) { dtor_body(129, v); }
static void dtor_130(void * v) { dtor_body(130, v); }
static void dtor_131(void * v) { dtor_body(131, v); }
static void dtor_132(void * v) { dtor_body(132, v); }
static void dtor_133(void * v) { dtor_body(133, v); }
static void dtor_134(void * v) { dtor_body(134, v); }
static void dtor_135(void * v) { dtor_body(135, v); }
static void dtor_136(void * v) { dtor_body(136, v); }
static void dtor_137(void * v) { dtor_body(137, v); }
static void dtor_138(void * v) { dtor_body(138, v); }
static void dtor_139(void * v) { dtor_body(139, v); }
static void dtor_140(void * v) { dtor_body(140, v); }
static void dtor_141(void * v) { dtor_body(141, v); }
static void dtor_142(void * v) { dtor_body(142, v); }
static void dtor_143(void * v) { dtor_body(143, v); }
static void dtor_144(void * v) { dtor_body(144, v); }
static void dtor_145(void * v) { dtor_body(145, v); }
static void dtor_146(void * v) { dtor_body(146, v); }
static void dtor_147(void * v) { dtor_body(147, v); }
static void dtor_148(void * v) { dtor_body(148, v); }
static void dtor_149(void * v) { dtor_body(149, v); }
static void dtor_150(void * v) { dtor_body(150, v); }
static void dtor_151(void * v) { dtor_body(151, v); }
static void dtor_152(void * v) { dtor_body(152, v); }
static void dtor_153(void * v) { dtor_body(153, v); }
static void dtor_154(void * v) { dtor_body(154, v); }
static void dtor_155(void * v) { dtor_body(155, v); }
static void dtor_156(void * v) { dtor_body(156, v); }
static void dtor_157(void * v) { dtor_body(157, v); }
static void dtor_158(void * v) { dtor_body(158, v); }
static void dtor_159(void * v) { dtor_body(159, v); }
static void dtor_160(void * v) { dtor_body(160, v); }
static void dtor_161(void * v) { dtor_body(161, v); }
static void dtor_162(void * v) { dtor_body(162, v); }
static void dtor_163(void * v) { dtor_body(163, v); }
static void dtor_164(void * v) { dtor_body(164, v); }
static void dtor_165(void * v) { dtor_body(165, v); }
static void dtor_166(void * v) { dtor_body(166, v); }
static void dtor_167(void * v) { dtor_body(167, v); }
static void dtor_168(void * v) { dtor_body(168, v); }
static void dtor_169(void * v) { dtor_body(169, v); }
static void dtor_170(void * v) { dtor_body(170, v); }
static void dtor_171(void * v) { dtor_body(171, v); }
static void dtor_172(void * v) { dtor_body(172, v); }
static void dtor_173(void * v) { dtor_body(173, v); }
static void dtor_174(void * v) { dtor_body(174, v); }
static void dtor_175(void * v) { dtor_body(175, v); }
static void dtor_176(void * v) { dtor_body(176, v); }
static void dtor_177(void * v) { dtor_body(177, v); }
static void dtor_178(void * v) { dtor_body(178, v); }
static void dtor_179(void * v) { dtor_body(179, v); }
static void dtor_180(void * v) { dtor_body(180, v); }
static void dtor_181(void * v) { dtor_body(181, v); }
static void dtor_182(void * v) { dtor_body(182, v); }
static void dtor_183(void * v) { dtor_body(183, v); }
static void dtor_184(void * v) { dtor_body(184, v); }
static void dtor_185(void * v) { dtor_body(185, v); }
static void dtor_186(void * v) { dtor_body(186, v); }
static void dtor_187(void * v) { dtor_body(187, v); }
static void dtor_188(void * v) { dtor_body(188, v); }
static void dtor_189(void * v) { dtor_body(189, v); }
static void dtor_190(void * v) { dtor_body(190, v); }
static void dtor_191(void * v) { dtor_body(191, v); }
static void dtor_192(void * v) { dtor_body(192, v); }
static void dtor_193(void * v) { dtor_body(193, v); }
static void dtor_194(void * v) { dtor_body(194, v); }
static void dtor_195(void * v) { dtor_body(195, v); }
static void dtor_196(void * v) { dtor_body(196, v); }
static void dtor_197(void * v) { dtor_body(197, v); }
static void dtor_198(void * v) { dtor_body(198, v); }
static void dtor_199(void * v) { dtor_body(199, v); }
static void dtor_200(void * v) { dtor_body(200, v); }
static void dtor_201(void * v) { dtor_body(201, v); }
static void dtor_202(void * v) { dtor_body(202, v); }
static void dtor_203(void * v) { dtor_body(203, v); }
static void dtor_204(void * v) { dtor_body(204, v); }
static void dtor_205(void * v) { dtor_body(205, v); }
static void dtor_206(void * v) { dtor_body(206, v); }
static void dtor_207(void * v) { dtor_body(207, v); }
static void dtor_208(void * v) { dtor_body(208, v); }
static void dtor_209(void * v) { dtor_body(209, v); }
static void dtor_210(void * v) { dtor_body(210, v); }
static void dtor_211(void * v) { dtor_body(211, v); }
static void dtor_212(void * v) { dtor_body(212, v); }
static void dtor_213(void * v) { dtor_body(213, v); }
static void dtor_214(void * v) { dtor_body(214, v); }
static void dtor_215(void * v) { dtor_body(215, v); }
static void dtor_216(void * v) { dtor_body(216, v); }
static void dtor_217(void * v) { dtor_body(217, v); }
static void dtor_218(void * v) { dtor_body(218, v); }
static void dtor_219(void * v) { dtor_body(219, v); }
static void dtor_220(void * v) { dtor_body(220, v); }
static void dtor_221(void * v) { dtor_body(221, v); }
static void dtor_222(void * v) { dtor_body(222, v); }
static void dtor_223(void * v) { dtor_body(223, v); }
static void dtor_224(void * v) { dtor_body(224, v); }
static void dtor_225(void * v) { dtor_body(225, v); }
static void dtor_226(void * v) { dtor_body(226, v); }
static void dtor_227(void * v) { dtor_body(227, v); }
static void dtor_228(void * v) { dtor_body(228, v); }
static void dtor_229(void * v) { dtor_body(229, v); }
static void dtor_230(void * v) { dtor_body(230, v); }
static void dtor_231(void * v) { dtor_body(231, v); }
static void dtor_232(void * v) { dtor_body(232, v); }
static void dtor_233(void * v) { dtor_body(233, v); }
static void dtor_234(void * v) { dtor_body(234, v); }
static void dtor_235(void * v) { dtor_body(235, v); }
static void dtor_236(void * v) { dtor_body(236, v); }
static void dtor_237(void * v) { dtor_body(237, v); }
static void dtor_238(void * v) { dtor_body(238, v); }
static void dtor_239(void * v) { dtor_body(239, v); }
static void dtor_240(void * v) { dtor_body(240, v); }
static void dtor_241(void * v) { dtor_body(241, v); }
static void dtor_242(void * v) { dtor_body(242, v); }
static void dtor_243(void * v) { dtor_body(243, v); }
static void dtor_244(void * v) { dtor_body(244, v); }
static void dtor_245(void * v) { dtor_body(245, v); }
static void dtor_246(void * v) { dtor_body(246, v); }
static void dtor_247(void * v) { dtor_body(247, v); }
static void dtor_248(void * v) { dtor_body(248, v); }
static void dtor_249(void * v) { dtor_body(249, v); }
static void dtor_250(void * v) { dtor_body(250, v); }
static void dtor_251(void * v) { dtor_body(251, v); }
static void dtor_252(void * v) { dtor_body(252, v); }
static void dtor_253(void * v) { dtor_body(253, v); }
static void dtor_254(void * v) { dtor_body(254, v); }
static void dtor_255(void * v) { dtor_body(255, v); }
static void dtor_256(void * v) { dtor_body(256, v); }
static void dtor_257(void * v) { dtor_body(257, v); }
static void dtor_258(void * v) { dtor_body(258, v); }
static void dtor_259(void * v) { dtor_body(259, v); }
static void dtor_260(void * v) { dtor_body(260, v); }
static void dtor_261(void * v) { dtor_body(261, v); }
static void dtor_262(void * v) { dtor_body(262, v); }
static void dtor_263(void * v) { dtor_body(263, v); }
static void dtor_264(void * v) { dtor_body(264, v); }
static void dtor_265(void * v) { dtor_body(265, v); }
static void dtor_266(void * v) { dtor_body(266, v); }
static void dtor_267(void * v) { dtor_body(267, v); }
static void dtor_268(void * v) { dtor_body(268, v); }
static void dtor_269(void * v) { dtor_body(269, v); }
static void dtor_270(void * v) { dtor_body(270, v); }
static void dtor_271(void * v) { dtor_body(271, v); }
static void dtor_272(void * v) { dtor_body(272, v); }
static void dtor_273(void * v) { dtor_body(273, v); }
static void dtor_274(void * v) { dtor_body(274, v); }
static void dtor_275(void * v) { dtor_body(275, v); }
static void dtor_276(void * v) { dtor_body(276, v); }
static void dtor_277(void * v) { dtor_body(277, v); }
static void dtor_278(void * v) { dtor_body(278, v); }
static void dtor_279(void * v) { dtor_body(279, v); }
static void dtor_280(void * v) { dtor_body(280, v); }
static void dtor_281(void * v) { dtor_body(281, v); }
static void dtor_282(void * v) { dtor_body(282, v); }
static void dtor_283(void * v) { dtor_body(283, v); }
static void dtor_284(void * v) { dtor_body(284, v); }
static void dtor_285(void * v) { dtor_body(285, v); }
static void dtor_286(void * v) { dtor_body(286, v); }
static void dtor_287(void * v) { dtor_body(287, v); }
static void dtor_288(void * v) { dtor_body(288, v); }
static void dtor_289(void * v) { dtor_body(289, v); }
static void dtor_290(void * v) { dtor_body(290, v); }
static void dtor_291(void * v) { dtor_body(291, v); }
static void dtor_292(void * v) { dtor_body(292, v); }
static void dtor_293(void * v) { dtor_body(293, v); }
static void dtor_294(void * v) { dtor_body(294, v); }
static void dtor_295(void * v) { dtor_body(295, v); }
static void dtor_296(void * v) { dtor_body(296, v); }
static void dtor_297(void * v) { dtor_body(297, v); }
static void dtor_298(void * v) { dtor_body(298, v); }
static void dtor_299(void * v) { dtor_body(299, v); }
static void dtor_300(void * v) { dtor_body(300, v); }
static void dtor_301(void * v) { dtor_body(301, v); }
static void dtor_302(void * v) { dtor_body(302, v); }
static void dtor_303(void * v) { dtor_body(303, v); }
static void dtor_304(void * v) { dtor_body(304, v); }
static void dtor_305(void * v) { dtor_body(305, v); }
static void dtor_306(void * v) { dtor_body(306, v); }
static void dtor_307(void * v) { dtor_body(307, v); }
static void dtor_308(void * v) { dtor_body(308, v); }
static void dtor_309(void * v) { dtor_body(309, v); }
static void dtor_310(void * v) { dtor_body(310, v); }
static void dtor_311(void * v) { dtor_body(311, v); }
static void dtor_312(void * v) { dtor_body(312, v); }
static void dtor_313(void * v) { dtor_body(313, v); }
static void dtor_314(void * v) { dtor_body(314, v); }
static void dtor_315(void * v) { dtor_body(315, v); }
static void dtor_316(void * v) { dtor_body(316, v); }
static void dtor_317(void * v) { dtor_body(317, v); }
static void dtor_318(void * v) { dtor_body(318, v); }
static void dtor_319(void * v) { dtor_body(319, v); }
static void dtor_320(void * v) { dtor_body(320, v); }
static void dtor_321(void * v) { dtor_body(321, v); }
static void dtor_322(void * v) { dtor_body(322, v); }
static void dtor_323(void * v) { dtor_body(323, v); }
static void dtor_324(void * v) { dtor_body(324, v); }
static void dtor_325(void * v) { dtor_body(325, v); }
static void dtor_326(void * v) { dtor_body(326, v); }
static void dtor_327(void * v) { dtor_body(327, v); }
static void dtor_328(void * v) { dtor_body(328, v); }
static void dtor_329(void * v) { dtor_body(329, v); }
static void dtor_330(void * v) { dtor_body(330, v); }
static void dtor_331(void * v) { dtor_body(331, v); }
static void dtor_332(void * v) { dtor_body(332, v); }
static void dtor_333(void * v) { dtor_body(333, v); }
static void dtor_334(void * v) { dtor_body(334, v); }
static void dtor_335(void * v) { dtor_body(335, v); }
static void dtor_336(void * v) { dtor_body(336, v); }
static void dtor_337(void * v) { dtor_body(337, v); }
static void dtor_338(void * v) { dtor_body(338, v); }
static void dtor_339(void * v) { dtor_body(339, v); }
static void dtor_340(void * v) { dtor_body(340, v); }
static void dtor_341(void * v) { dtor_body(341, v); }
static void dtor_342(void * v) { dtor_body(342, v); }
static void dtor_343(void * v) { dtor_body(343, v); }
static void dtor_344(void * v) { dtor_body(344, v); }
static void dtor_345(void * v) { dtor_body(345, v); }
static void dtor_346(void * v) { dtor_body(346, v); }
static void dtor_347(void * v) { dtor_body(347, v); }
static void dtor_348(void * v) { dtor_body(348, v); }
static void dtor_349(void * v) { dtor_body(349, v); }
static void dtor_350(void * v) { dtor_body(350, v); }
static void dtor_351(void * v) { dtor_body(351, v); }
static void dtor_352(void * v) { dtor_body(352, v); }
static void dtor_353(void * v) { dtor_body(353, v); }
static void dtor_354(void * v) { dtor_body(354, v); }
static void dtor_355(void * v) { dtor_body(355, v); }
static void dtor_356(void * v) { dtor_body(356, v); }
static void dtor_357(void * v) { dtor_body(357, v); }
static void dtor_358(void * v) { dtor_body(358, v); }
static void dtor_359(void * v) { dtor_body(359, v); }
static void dtor_360(void * v) { dtor_body(360, v); }
static void dtor_361(void * v) { dtor_body(361, v); }
static void dtor_362(void * v) { dtor_body(362, v); }
static void dtor_363(void * v) { dtor_body(363, v); }
static void dtor_364(void * v) { dtor_body(364, v); }
static void dtor_365(void * v) { dtor_body(365, v); }
static void dtor_366(void * v) { dtor_body(366, v); }
static void dtor_367(void * v) { dtor_body(367, v); }
static void dtor_368(void * v) { dtor_body(368, v); }
static void dtor_369(void * v) { dtor_body(369, v); }
static void dtor_370(void * v) { dtor_body(370, v); }
static void dtor_371(void * v) { dtor_body(371, v); }
static void dtor_372(void * v) { dtor_body(372, v); }
static void dtor_373(void * v) { dtor_body(373, v); }
static void dtor_374(void * v) { dtor_body(374, v); }
static void dtor_375(void * v) { dtor_body(375, v); }
static void dtor_376(void * v) { dtor_body(376, v); }
static void dtor_377(void * v) { dtor_body(377, v); }
static void dtor_378(void * v) { dtor_body(378, v); }
static void dtor_379(void * v) { dtor_body(379, v); }
static void dtor_380(void * v) { dtor_body(380, v); }
static void dtor_381(void * v) { dtor_body(381, v); }
static void dtor_382(void * v) { dtor_body(382, v); }
static void dtor_383(void * v) { dtor_body(383, v); }
static void dtor_384(void * v) { dtor_body(384, v); }
static void dtor_385(void * v) { dtor_body(385, v); }
static void dtor_386(void * v) { dtor_body(386, v); }
static void dtor_387(void * v) { dtor_body(387, v); }
static void dtor_388(void * v) { dtor_body(388, v); }
static void dtor_389(void * v) { dtor_body(389, v); }
static void dtor_390(void * v) { dtor_body(390, v); }
static void dtor_391(void * v) { dtor_body(391, v); }
static void dtor_392(void * v) { dtor_body(392, v); }
static void dtor_393(void * v) { dtor_body(393, v); }
static void dtor_394(void * v) { dtor_body(394, v); }
static void dtor_395(void * v) { dtor_body(395, v); }
static void dtor_396(void * v) { dtor_body(396, v); }
static void dtor_397(void * v) { dtor_body(397, v); }
static void dtor_398(void * v) { dtor_body(398, v); }
static void dtor_399(void * v) { dtor_body(399, v); }
static void dtor_400(void * v) { dtor_body(400, v); }
static void dtor_401(void * v) { dtor_body(401, v); }
static void dtor_402(void * v) { dtor_body(402, v); }
static void dtor_403(void * v) { dtor_body(403, v); }
static void dtor_404(void * v) { dtor_body(404, v); }
static void dtor_405(void * v) { dtor_body(405, v); }
static void dtor_406(void * v) { dtor_body(406, v); }
static void dtor_407(void * v) { dtor_body(407, v); }
static void dtor_408(void * v) { dtor_body(408, v); }
static void dtor_409(void * v) { dtor_body(409, v); }
static void dtor_410(void * v) { dtor_body(410, v); }
static void dtor_411(void * v) { dtor_body(411, v); }
static void dtor_412(void * v) { dtor_body(412, v); }
static void dtor_413(void * v) { dtor_body(413, v); }
static void dtor_414(void * v) { dtor_body(414, v); }
static void dtor_415(void * v) { dtor_body(415, v); }
static void dtor_416(void * v) { dtor_body(416, v); }
static void dtor_417(void * v) { dtor_body(417, v); }
static void dtor_418(void * v) { dtor_body(418, v); }
static void dtor_419(void * v) { dtor_body(419, v); }
static void dtor_420(void * v) { dtor_body(420, v); }
static void dtor_421(void * v) { dtor_body(421, v); }
static void dtor_422(void * v) { dtor_body(422, v); }
static void dtor_423(void * v) { dtor_body(423, v); }
static void dtor_424(void * v) { dtor_body(424, v); }
static void dtor_425(void * v) { dtor_body(425, v); }
static void dtor_426(void * v) { dtor_body(426, v); }
static void dtor_427(void * v) { dtor_body(427, v); }
static void dtor_428(void * v) { dtor_body(428, v); }
static void dtor_429(void * v) { dtor_body(429, v); }
static void dtor_430(void * v) { dtor_body(430, v); }
static void dtor_431(void * v) { dtor_body(431, v); }
static void dtor_432(void * v) { dtor_body(432, v); }
static void dtor_433(void * v) { dtor_body(433, v); }
static void dtor_434(void * v) { dtor_body(434, v); }
static void dtor_435(void * v) { dtor_body(435, v); }
static void dtor_436(void * v) { dtor_body(436, v); }
static void dtor_437(void * v) { dtor_body(437, v); }
static void dtor_438(void * v) { dtor_body(438, v); }
static void dtor_439(void * v) { dtor_body(439, v); }
static void dtor_440(void * v) { dtor_body(440, v); }
static void dtor_441(void * v) { dtor_body(441, v); }
static void dtor_442(void * v) { dtor_body(442, v); }
static void dtor_443(void * v) { dtor_body(443, v); }
static void dtor_444(void * v) { dtor_body(444, v); }
static void dtor_445(void * v) { dtor_body(445, v); }
static void dtor_446(void * v) { dtor_body(446, v); }
static void dtor_447(void * v) { dtor_body(447, v); }
static void dtor_448(void * v) { dtor_body(448, v); }
static void dtor_449(void * v) { dtor_body(449, v); }
static void dtor_450(void * v) { dtor_body(450, v); }
static void dtor_451(void * v) { dtor_body(451, v); }
static void dtor_452(void * v) { dtor_body(452, v); }
static void dtor_453(void * v) { dtor_body(453, v); }
static void dtor_454(void * v) { dtor_body(454, v); }
static void dtor_455(void * v) { dtor_body(455, v); }
static void dtor_456(void * v) { dtor_body(456, v); }
static void dtor_457(void * v) { dtor_body(457, v); }
static void dtor_458(void * v) { dtor_body(458, v); }
static void dtor_459(void * v) { dtor_body(459, v); }
static void dtor_460(void * v) { dtor_body(460, v); }
static void dtor_461(void * v) { dtor_body(461, v); }
static void dtor_462(void * v) { dtor_body(462, v); }
static void dtor_463(void * v) { dtor_body(463, v); }
static void dtor_464(void * v) { dtor_body(464, v); }
static void dtor_465(void * v) { dtor_body(465, v); }
static void dtor_466(void * v) { dtor_body(466, v); }
static void dtor_467(void * v) { dtor_body(467, v); }
static void dtor_468(void * v) { dtor_body(468, v); }
static void dtor_469(void * v) { dtor_body(469, v); }
static void dtor_470(void * v) { dtor_body(470, v); }
static void dtor_471(void * v) { dtor_body(471, v); }
static void dtor_472(void * v) { dtor_body(472, v); }
static void dtor_473(void * v) { dtor_body(473, v); }
static void dtor_474(void * v) { dtor_body(474, v); }
static void dtor_475(void * v) { dtor_body(475, v); }
static void dtor_476(void * v) { dtor_body(476, v); }
static void dtor_477(void * v) { dtor_body(477, v); }
static void dtor_478(void * v) { dtor_body(478, v); }
static void dtor_479(void * v) { dtor_body(479, v); }
static void dtor_480(void * v) { dtor_body(480, v); }
static void dtor_481(void * v) { dtor_body(481, v); }
static void dtor_482(void * v) { dtor_body(482, v); }
static void dtor_483(void * v) { dtor_body(483, v); }
static void dtor_484(void * v) { dtor_body(484, v); }
static void dtor_485(void * v) { dtor_body(485, v); }
static void dtor_486(void * v) { dtor_body(486, v); }
static void dtor_487(void * v) { dtor_body(487, v); }
static void dtor_488(void * v) { dtor_body(488, v); }
static void dtor_489(void * v) { dtor_body(489, v); }
static void dtor_490(void * v) { dtor_body(490, v); }
static void dtor_491(void * v) { dtor_body(491, v); }
static void dtor_492(void * v) { dtor_body(492, v); }
static void dtor_493(void * v) { dtor_body(493, v); }
static void dtor_494(void * v) { dtor_body(494, v); }
static void dtor_495(void * v) { dtor_body(495, v); }
static void dtor_496(void * v) { dtor_body(496, v); }
static void dtor_497(void * v) { dtor_body(497, v); }
static void dtor_498(void * v) { dtor_body(498, v); }
static void dtor_499(void * v) { dtor_body(499, v); }
static void dtor_500(void * v) { dtor_body(500, v); }
static void dtor_501(void * v) { dtor_body(501, v); }
static void dtor_502(void * v) { dtor_body(502, v); }
static void dtor_503(void * v) { dtor_body(503, v); }
static void dtor_504(void * v) { dtor_body(504, v); }
static void dtor_505(void * v) { dtor_body(505, v); }
static void dtor_506(void * v) { dtor_body(506, v); }
static void dtor_507(void * v) { dtor_body(507, v); }
static void dtor_508(void * v) { dtor_body(508, v); }
static void dtor_509(void * v) { dtor_body(509, v); }
static void dtor_510(void * v) { dtor_body(510, v); }
static void dtor_511(void * v) { dtor_body(511, v); }
static void dtor_512(void * v) { dtor_body(512, v); }
static void dtor_513(void * v) { dtor_body(513, v); }
static void dtor_514(void * v) { dtor_body(514, v); }
static void dtor_515(void * v) { dtor_body(515, v); }
static void dtor_516(void * v) { dtor_body(516, v); }
static void dtor_517(void * v) { dtor_body(517, v); }
static void dtor_518(void * v) { dtor_body(518, v); }
static void dtor_519(void * v) { dtor_body(519, v); }
static void dtor_520(void * v) { dtor_body(520, v); }
static void dtor_521(void * v) { dtor_body(521, v); }
static void dtor_522(void * v) { dtor_body(522, v); }
static void dtor_523(void * v) { dtor_body(523, v); }
static void dtor_524(void * v) { dtor_body(524, v); }
static void dtor_525(void * v) { dtor_body(525, v); }
static void dtor_526(void * v) { dtor_body(526, v); }
static void dtor_527(void * v) { dtor_body(527, v); }
static void dtor_528(void * v) { dtor_body(528, v); }
static void dtor_529(void * v) { dtor_body(529, v); }
static void dtor_530(void * v) { dtor_body(530, v); }
static void dtor_531(void * v) { dtor_body(531, v); }
static void dtor_532(void * v) { dtor_body(532, v); }
static void dtor_533(void * v) { dtor_body(533, v); }
static void dtor_534(void * v) { dtor_body(534, v); }
static void dtor_535(void * v) { dtor_body(535, v); }
static void dtor_536(void * v) { dtor_body(536, v); }
static void dtor_537(void * v) { dtor_body(537, v); }
static void dtor_538(void * v) { dtor_body(538, v); }
static void dtor_539(void * v) { dtor_body(539, v); }
static void dtor_540(void * v) { dtor_body(540, v); }
static void dtor_541(void * v) { dtor_body(541, v); }
static void dtor_542(void * v) { dtor_body(542, v); }
static void dtor_543(void * v) { dtor_body(543, v); }
static void dtor_544(void * v) { dtor_body(544, v); }
static void dtor_545(void * v) { dtor_body(545, v); }
static void dtor_546(void * v) { dtor_body(546, v); }
static void dtor_547(void * v) { dtor_body(547, v); }
static void dtor_548(void * v) { dtor_body(548, v); }
static void dtor_549(void * v) { dtor_body(549, v); }
static void dtor_550(void * v) { dtor_body(550, v); }
static void dtor_551(void * v) { dtor_body(551, v); }
static void dtor_552(void * v) { dtor_body(552, v); }
static void dtor_553(void * v) { dtor_body(553, v); }
static void dtor_554(void * v) { dtor_body(554, v); }
static void dtor_555(void * v) { dtor_body(555, v); }
static void dtor_556(void * v) { dtor_body(556, v); }
static void dtor_557(void * v) { dtor_body(557, v); }
static void dtor_558(void * v) { dtor_body(558, v); }
static void dtor_559(void * v) { dtor_body(559, v); }
static void dtor_560(void * v) { dtor_body(560, v); }
static void dtor_561(void * v) { dtor_body(561, v); }
static void dtor_562(void * v) { dtor_body(562, v); }
static void dtor_563(void * v) { dtor_body(563, v); }
static void dtor_564(void * v) { dtor_body(564, v); }
static void dtor_565(void * v) { dtor_body(565, v); }
static void dtor_566(void * v) { dtor_body(566, v); }
static void dtor_567(void * v) { dtor_body(567, v); }
static void dtor_568(void * v) { dtor_body(568, v); }
static void dtor_569(void * v) { dtor_body(569, v); }
static void dtor_570(void * v) { dtor_body(570, v); }
static void dtor_571(void * v) { dtor_body(571, v); }
static void dtor_572(void * v) { dtor_body(572, v); }
static void dtor_573(void * v) { dtor_body(573, v); }
static void dtor_574(void * v) { dtor_body(574, v); }
static void dtor_575(void * v) { dtor_body(575, v); }
static void dtor_576(void * v) { dtor_body(576, v); }
static void dtor_577(void * v) { dtor_body(577, v); }
static void dtor_578(void * v) { dtor_body(578, v); }
static void dtor_579(void * v) { dtor_body(579, v); }
static void dtor_580(void * v) { dtor_body(580, v); }
static void dtor_581(void * v) { dtor_body(581, v); }
static void dtor_582(void * v) { dtor_body(582, v); }
static void dtor_583(void * v) { dtor_body(583, v); }
static void dtor_584(void * v) { dtor_body(584, v); }
static void dtor_585(void * v) { dtor_body(585, v); }
static void dtor_586(void * v) { dtor_body(586, v); }
static void dtor_587(void * v) { dtor_body(587, v); }
static void dtor_588(void * v) { dtor_body(588, v); }
static void dtor_589(void * v) { dtor_body(589, v); }
static void dtor_590(void * v) { dtor_body(590, v); }
static void dtor_591(void * v) { dtor_body(591, v); }
static void dtor_592(void * v) { dtor_body(592, v); }
static void dtor_593(void * v) { dtor_body(593, v); }
static void dtor_594(void * v) { dtor_body(594, v); }
static void dtor_595(void * v) { dtor_body(595, v); }
static void dtor_596(void * v) { dtor_body(596, v); }
static void dtor_597(void * v) { dtor_body(597, v); }
static void dtor_598(void * v) { dtor_body(598, v); }
static void dtor_599(void * v) { dtor_body(599, v); }
static void dtor_600(void * v) { dtor_body(600, v); }
static void dtor_601(void * v) { dtor_body(601, v); }
static void dtor_602(void * v) { dtor_body(602, v); }
static void dtor_603(void * v) { dtor_body(603, v); }
static void dtor_604(void * v) { dtor_body(604, v); }
static void dtor_605(void * v) { dtor_body(605, v); }
static void dtor_606(void * v) { dtor_body(606, v); }
static void dtor_607(void * v) { dtor_body(607, v); }
static void dtor_608(void * v) { dtor_body(608, v); }
static void dtor_609(void * v) { dtor_body(609, v); }
static void dtor_610(void * v) { dtor_body(610, v); }
static void dtor_611(void * v) { dtor_body(611, v); }
static void dtor_612(void * v) { dtor_body(612, v); }
static void dtor_613(void * v) { dtor_body(613, v); }
static void dtor_614(void * v) { dtor_body(614, v); }
static void dtor_615(void * v) { dtor_body(615, v); }
static void dtor_616(void * v) { dtor_body(616, v); }
static void dtor_617(void * v) { dtor_body(617, v); }
static void dtor_618(void * v) { dtor_body(618, v); }
static void dtor_619(void * v) { dtor_body(619, v); }
static void dtor_620(void * v) { dtor_body(620, v); }
static void dtor_621(void * v) { dtor_body(621, v); }
static void dtor_622(void * v) { dtor_body(622, v); }
static void dtor_623(void * v) { dtor_body(623, v); }
static void dtor_624(void * v) { dtor_body(624, v); }
static void dtor_625(void * v) { dtor_body(625, v); }
static void dtor_626(void * v) { dtor_body(626, v); }
static void dtor_627(void * v) { dtor_body(627, v); }
static void dtor_628(void * v) { dtor_body(628, v); }
static void dtor_629(void * v) { dtor_body(629, v); }
static void dtor_630(void * v) { dtor_body(630, v); }
static void dtor_631(void * v) { dtor_body(631, v); }
static void dtor_632(void * v) { dtor_body(632, v); }
static void dtor_633(void * v) { dtor_body(633, v); }
static void dtor_634(void * v) { dtor_body(634, v); }
static void dtor_635(void * v) { dtor_body(635, v); }
static void dtor_636(void * v) { dtor_body(636, v); }
static void dtor_637(void * v) { dtor_body(637, v); }
static void dtor_638(void * v) { dtor_body(638, v); }
static void dtor_639(void * v) { dtor_body(639, v); }
static void dtor_640(void * v) { dtor_body(640, v); }
static void dtor_641(void * v) { dtor_body(641, v); }
static void dtor_642(void * v) { dtor_body(642, v); }
static void dtor_643(void * v) { dtor_body(643, v); }
static void dtor_644(void * v) { dtor_body(644, v); }
static void dtor_645(void * v) { dtor_body(645, v); }
static void dtor_646(void * v) { dtor_body(646, v); }
static void dtor_647(void * v) { dtor_body(647, v); }
static void dtor_648(void * v) { dtor_body(648, v); }
static void dtor_649(void * v) { dtor_body(649, v); }
static void dtor_650(void * v) { dtor_body(650, v); }
static void dtor_651(void * v) { dtor_body(651, v); }
static void dtor_652(void * v) { dtor_body(652, v); }
static void dtor_653(void * v) { dtor_body(653, v); }
static void dtor_654(void * v) { dtor_body(654, v); }
static void dtor_655(void * v) { dtor_body(655, v); }
static void dtor_656(void * v) { dtor_body(656, v); }
static void dtor_657(void * v) { dtor_body(657, v); }
static void dtor_658(void * v) { dtor_body(658, v); }
static void dtor_659(void * v) { dtor_body(659, v); }
static void dtor_660(void * v) { dtor_body(660, v); }
static void dtor_661(void * v) { dtor_body(661, v); }
static void dtor_662(void * v) { dtor_body(662, v); }
static void dtor_663(void * v) { dtor_body(663, v); }
static void dtor_664(void * v) { dtor_body(664, v); }
static void dtor_665(void * v) { dtor_body(665, v); }
static void dtor_666(void * v) { dtor_body(666, v); }
static void dtor_667(void * v) { dtor_body(667, v); }
static void dtor_668(void * v) { dtor_body(668, v); }
static void dtor_669(void * v) { dtor_body(669, v); }
static void dtor_670(void * v) { dtor_body(670, v); }
static void dtor_671(void * v) { dtor_body(671, v); }
static void dtor_672(void * v) { dtor_body(672, v); }
static void dtor_673(void * v) { dtor_body(673, v); }
static void dtor_674(void * v) { dtor_body(674, v); }
static void dtor_675(void * v) { dtor_body(675, v); }
static void dtor_676(void * v) { dtor_body(676, v); }
static void dtor_677(void * v) { dtor_body(677, v); }
static void dtor_678(void * v) { dtor_body(678, v); }
static void dtor_679(void * v) { dtor_body(679, v); }
static void dtor_680(void * v) { dtor_body(680, v); }
static void dtor_681(void * v) { dtor_body(681, v); }
static void dtor_682(void * v) { dtor_body(682, v); }
static void dtor_683(void * v) { dtor_body(683, v); }
static void dtor_684(void * v) { dtor_body(684, v); }
static void dtor_685(void * v) { dtor_body(685, v); }
static void dtor_686(void * v) { dtor_body(686, v); }
static void dtor_687(void * v) { dtor_body(687, v); }
static void dtor_688(void * v) { dtor_body(688, v); }
static void dtor_689(void * v) { dtor_body(689, v); }
static void dtor_690(void * v) { dtor_body(690, v); }
static void dtor_691(void * v) { dtor_body(691, v); }
static void dtor_692(void * v) { dtor_body(692, v); }
static void dtor_693(void * v) { dtor_body(693, v); }
static void dtor_694(void * v) { dtor_body(694, v); }
static void dtor_695(void * v) { dtor_body(695, v); }
static void dtor_696(void * v) { dtor_body(696, v); }
static void dtor_697(void * v) { dtor_body(697, v); }
static void dtor_698(void * v) { dtor_body(698, v); }
static void dtor_699(void * v) { dtor_body(699, v); }
static void dtor_700(void * v) { dtor_body(700, v); }
static void dtor_701(void * v) { dtor_body(701, v); }
static void dtor_702(void * v) { dtor_body(702, v); }
static void dtor_703(void * v) { dtor_body(703, v); }
static void dtor_704(void * v) { dtor_body(704, v); }
static void dtor_705(void * v) { dtor_body(705, v); }
static void dtor_706(void * v) { dtor_body(706, v); }
static void dtor_707(void * v) { dtor_body(707, v); }
static void dtor_708(void * v) { dtor_body(708, v); }
static void dtor_709(void * v) { dtor_body(709, v); }
static void dtor_710(void * v) { dtor_body(710, v); }
static void dtor_711(void * v) { dtor_body(711, v); }
static void dtor_712(void * v) { dtor_body(712, v); }
static void dtor_713(void * v) { dtor_body(713, v); }
static void dtor_714(void * v) { dtor_body(714, v); }
static void dtor_715(void * v) { dtor_body(715, v); }
static void dtor_716(void * v) { dtor_body(716, v); }
static void dtor_717(void * v) { dtor_body(717, v); }
static void dtor_718(void * v) { dtor_body(718, v); }
static void dtor_719(void * v) { dtor_body(719, v); }
static void dtor_720(void * v) { dtor_body(720, v); }
static void dtor_721(void * v) { dtor_body(721, v); }
static void dtor_722(void * v) { dtor_body(722, v); }
static void dtor_723(void * v) { dtor_body(723, v); }
static void dtor_724(void * v) { dtor_body(724, v); }
static void dtor_725(void * v) { dtor_body(725, v); }
static void dtor_726(void * v) { dtor_body(726, v); }
static void dtor_727(void * v) { dtor_body(727, v); }
static void dtor_728(void * v) { dtor_body(728, v); }
static void dtor_729(void * v) { dtor_body(729, v); }
static void dtor_730(void * v) { dtor_body(730, v); }
static void dtor_731(void * v) { dtor_body(731, v); }
static void dtor_732(void * v) { dtor_body(732, v); }
static void dtor_733(void * v) { dtor_body(733, v); }
static void dtor_734(void * v) { dtor_body(734, v); }
static void dtor_735(void * v) { dtor_body(735, v); }
static void dtor_736(void * v) { dtor_body(736, v); }
static void dtor_737(void * v) { dtor_body(737, v); }
static void dtor_738(void * v) { dtor_body(738, v); }
static void dtor_739(void * v) { dtor_body(739, v); }
static void dtor_740(void * v) { dtor_body(740, v); }
static void dtor_741(void * v) { dtor_body(741, v); }
static void dtor_742(void * v) { dtor_body(742, v); }
static void dtor_743(void * v) { dtor_body(743, v); }
static void dtor_744(void * v) { dtor_body(744, v); }
static void dtor_745(void * v) { dtor_body(745, v); }
static void dtor_746(void * v) { dtor_body(746, v); }
static void dtor_747(void * v) { dtor_body(747, v); }
static void dtor_748(void * v) { dtor_body(748, v); }
static void dtor_749(void * v) { dtor_body(749, v); }
static void dtor_750(void * v) { dtor_body(750, v); }
static void dtor_751(void * v) { dtor_body(751, v); }
static void dtor_752(void * v) { dtor_body(752, v); }
static void dtor_753(void * v) { dtor_body(753, v); }
static void dtor_754(void * v) { dtor_body(754, v); }
static void dtor_755(void * v) { dtor_body(755, v); }
static void dtor_756(void * v) { dtor_body(756, v); }
static void dtor_757(void * v) { dtor_body(757, v); }
static void dtor_758(void * v) { dtor_body(758, v); }
static void dtor_759(void * v) { dtor_body(759, v); }
static void dtor_760(void * v) { dtor_body(760, v); }
static void dtor_761(void * v) { dtor_body(761, v); }
static void dtor_762(void * v) { dtor_body(762, v); }
static void dtor_763(void * v) { dtor_body(763, v); }
static void dtor_764(void * v) { dtor_body(764, v); }
static void dtor_765(void * v) { dtor_body(765, v); }
static void dtor_766(void * v) { dtor_body(766, v); }
static void dtor_767(void * v) { dtor_body(767, v); }
static void dtor_768(void * v) { dtor_body(768, v); }
static void dtor_769(void * v) { dtor_body(769, v); }
static void dtor_770(void * v) { dtor_body(770, v); }
static void dtor_771(void * v) { dtor_body(771, v); }
static void dtor_772(void * v) { dtor_body(772, v); }
static void dtor_773(void * v) { dtor_body(773, v); }
static void dtor_774(void * v) { dtor_body(774, v); }
static void dtor_775(void * v) { dtor_body(775, v); }
static void dtor_776(void * v) { dtor_body(776, v); }
static void dtor_777(void * v) { dtor_body(777, v); }
static void dtor_778(void * v) { dtor_body(778, v); }
static void dtor_779(void * v) { dtor_body(779, v); }
static void dtor_780(void * v) { dtor_body(780, v); }
static void dtor_781(void * v) { dtor_body(781, v); }
static void dtor_782(void * v) { dtor_body(782, v); }
static void dtor_783(void * v) { dtor_body(783, v); }
static void dtor_784(void * v) { dtor_body(784, v); }
static void dtor_785(void * v) { dtor_body(785, v); }
static void dtor_786(void * v) { dtor_body(786, v); }
static void dtor_787(void * v) { dtor_body(787, v); }
static void dtor_788(void * v) { dtor_body(788, v); }
static void dtor_789(void * v) { dtor_body(789, v); }
static void dtor_790(void * v) { dtor_body(790, v); }
static void dtor_791(void * v) { dtor_body(791, v); }
static void dtor_792(void * v) { dtor_body(792, v); }
static void dtor_793(void * v) { dtor_body(793, v); }
static void dtor_794(void * v) { dtor_body(794, v); }
static void dtor_795(void * v) { dtor_body(795, v); }
static void dtor_796(void * v) { dtor_body(796, v); }
static void dtor_797(void * v) { dtor_body(797, v); }
static void dtor_798(void * v) { dtor_body(798, v); }
static void dtor_799(void * v) { dtor_body(799, v); }
static void dtor_800(void * v) { dtor_body(800, v); }
static void dtor_801(void * v) { dtor_body(801, v); }
static void dtor_802(void * v) { dtor_body(802, v); }
static void dtor_803(void * v) { dtor_body(803, v); }
static void dtor_804(void * v) { dtor_body(804, v); }
static void dtor_805(void * v) { dtor_body(805, v); }
static void dtor_806(void * v) { dtor_body(806, v); }
static void dtor_807(void * v) { dtor_body(807, v); }
static void dtor_808(void * v) { dtor_body(808, v); }
static void dtor_809(void * v) { dtor_body(809, v); }
static void dtor_810(void * v) { dtor_body(810, v); }
static void dtor_811(void * v) { dtor_body(811, v); }
static void dtor_812(void * v) { dtor_body(812, v); }
static void dtor_813(void * v) { dtor_body(813, v); }
static void dtor_814(void * v) { dtor_body(814, v); }
static void dtor_815(void * v) { dtor_body(815, v); }
static void dtor_816(void * v) { dtor_body(816, v); }
static void dtor_817(void * v) { dtor_body(817, v); }
static void dtor_818(void * v) { dtor_body(818, v); }
static void dtor_819(void * v) { dtor_body(819, v); }
static void dtor_820(void * v) { dtor_body(820, v); }
static void dtor_821(void * v) { dtor_body(821, v); }
static void dtor_822(void * v) { dtor_body(822, v); }
static void dtor_823(void * v) { dtor_body(823, v); }
static void dtor_824(void * v) { dtor_body(824, v); }
static void dtor_825(void * v) { dtor_body(825, v); }
static void dtor_826(void * v) { dtor_body(826, v); }
static void dtor_827(void * v) { dtor_body(827, v); }
static void dtor_828(void * v) { dtor_body(828, v); }
static void dtor_829(void * v) { dtor_body(829, v); }
static void dtor_830(void * v) { dtor_body(830, v); }
static void dtor_831(void * v) { dtor_body(831, v); }
static void dtor_832(void * v) { dtor_body(832, v); }
static void dtor_833(void * v) { dtor_body(833, v); }
static void dtor_834(void * v) { dtor_body(834, v); }
static void dtor_835(void * v) { dtor_body(835, v); }
static void dtor_836(void * v) { dtor_body(836, v); }
static void dtor_837(void * v) { dtor_body(837, v); }
static void dtor_838(void * v) { dtor_body(838, v); }
static void dtor_839(void * v) { dtor_body(839, v); }
static void dtor_840(void * v) { dtor_body(840, v); }
static void dtor_841(void * v) { dtor_body(841, v); }
static void dtor_842(void * v) { dtor_body(842, v); }
static void dtor_843(void * v) { dtor_body(843, v); }
static void dtor_844(void * v) { dtor_body(844, v); }
static void dtor_845(void * v) { dtor_body(845, v); }
static void dtor_846(void * v) { dtor_body(846, v); }
static void dtor_847(void * v) { dtor_body(847, v); }
static void dtor_848(void * v) { dtor_body(848, v); }
static void dtor_849(void * v) { dtor_body(849, v); }
static void dtor_850(void * v) { dtor_body(850, v); }
static void dtor_851(void * v) { dtor_body(851, v); }
static void dtor_852(void * v) { dtor_body(852, v); }
static void dtor_853(void * v) { dtor_body(853, v); }
static void dtor_854(void * v) { dtor_body(854, v); }
static void dtor_855(void * v) { dtor_body(855, v); }
static void dtor_856(void * v) { dtor_body(856, v); }
static void dtor_857(void * v) { dtor_body(857, v); }
static void dtor_858(void * v) { dtor_body(858, v); }
static void dtor_859(void * v) { dtor_body(859, v); }
static void dtor_860(void * v) { dtor_body(860, v); }
static void dtor_861(void * v) { dtor_body(861, v); }
static void dtor_862(void * v) { dtor_body(862, v); }
static void dtor_863(void * v) { dtor_body(863, v); }
static void dtor_864(void * v) { dtor_body(864, v); }
static void dtor_865(void * v) { dtor_body(865, v); }
static void dtor_866(void * v) { dtor_body(866, v); }
static void dtor_867(void * v) { dtor_body(867, v); }
static void dtor_868(void * v) { dtor_body(868, v); }
static void dtor_869(void * v) { dtor_body(869, v); }
static void dtor_870(void * v) { dtor_body(870, v); }
static void dtor_871(void * v) { dtor_body(871, v); }
static void dtor_872(void * v) { dtor_body(872, v); }
static void dtor_873(void * v) { dtor_body(873, v); }
static void dtor_874(void * v) { dtor_body(874, v); }
static void dtor_875(void * v) { dtor_body(875, v); }
static void dtor_876(void * v) { dtor_body(876, v); }
static void dtor_877(void * v) { dtor_body(877, v); }
static void dtor_878(void * v) { dtor_body(878, v); }
static void dtor_879(void * v) { dtor_body(879, v); }
static void dtor_880(void * v) { dtor_body(880, v); }
static void dtor_881(void * v) { dtor_body(881, v); }
static void dtor_882(void * v) { dtor_body(882, v); }
static void dtor_883(void * v) { dtor_body(883, v); }
static void dtor_884(void * v) { dtor_body(884, v); }
static void dtor_885(void * v) { dtor_body(885, v); }
static void dtor_886(void * v) { dtor_body(886, v); }
static void dtor_887(void * v) { dtor_body(887, v); }
static void dtor_888(void * v) { dtor_body(888, v); }
static void dtor_889(void * v) { dtor_body(889, v); }
static void dtor_890(void * v) { dtor_body(890, v); }
static void dtor_891(void * v) { dtor_body(891, v); }
static void dtor_892(void * v) { dtor_body(892, v); }
static void dtor_893(void * v) { dtor_body(893, v); }
static void dtor_894(void * v) { dtor_body(894, v); }
static void dtor_895(void * v) { dtor_body(895, v); }
static void dtor_896(void * v) { dtor_body(896, v); }
static void dtor_897(void * v) { dtor_body(897, v); }
static void dtor_898(void * v) { dtor_body(898, v); }
static void dtor_899(void * v) { dtor_body(899, v); }
static void dtor_900(void * v) { dtor_body(900, v); }
static void dtor_901(void * v) { dtor_body(901, v); }
static void dtor_902(void * v) { dtor_body(902, v); }
static void dtor_903(void * v) { dtor_body(903, v); }
static void dtor_904(void * v) { dtor_body(904, v); }
static void dtor_905(void * v) { dtor_body(905, v); }
static void dtor_906(void * v) { dtor_body(906, v); }
static void dtor_907(void * v) { dtor_body(907, v); }
static void dtor_908(void * v) { dtor_body(908, v); }
static void dtor_909(void * v) { dtor_body(909, v); }
static void dtor_910(void * v) { dtor_body(910, v); }
static void dtor_911(void * v) { dtor_body(911, v); }
static void dtor_912(void * v) { dtor_body(912, v); }
static void dtor_913(void * v) { dtor_body(913, v); }
static void dtor_914(void * v) { dtor_body(914, v); }
static void dtor_915(void * v) { dtor_body(915, v); }
static void dtor_916(void * v) { dtor_body(916, v); }
static void dtor_917(void * v) { dtor_body(917, v); }
static void dtor_918(void * v) { dtor_body(918, v); }
static void dtor_919(void * v) { dtor_body(919, v); }
static void dtor_920(void * v) { dtor_body(920, v); }
static void dtor_921(void * v) { dtor_body(921, v); }
static void dtor_922(void * v) { dtor_body(922, v); }
static void dtor_923(void * v) { dtor_body(923, v); }
static void dtor_924(void * v) { dtor_body(924, v); }
static void dtor_925(void * v) { dtor_body(925, v); }
static void dtor_926(void * v) { dtor_body(926, v); }
static void dtor_927(void * v) { dtor_body(927, v); }
static void dtor_928(void * v) { dtor_body(928, v); }
static void dtor_929(void * v) { dtor_body(929, v); }
static void dtor_930(void * v) { dtor_body(930, v); }
static void dtor_931(void * v) { dtor_body(931, v); }
static void dtor_932(void * v) { dtor_body(932, v); }
static void dtor_933(void * v) { dtor_body(933, v); }
static void dtor_934(void * v) { dtor_body(934, v); }
static void dtor_935(void * v) { dtor_body(935, v); }
static void dtor_936(void * v) { dtor_body(936, v); }
static void dtor_937(void * v) { dtor_body(937, v); }
static void dtor_938(void * v) { dtor_body(938, v); }
static void dtor_939(void * v) { dtor_body(939, v); }
static void dtor_940(void * v) { dtor_body(940, v); }
static void dtor_941(void * v) { dtor_body(941, v); }
static void dtor_942(void * v) { dtor_body(942, v); }
static void dtor_943(void * v) { dtor_body(943, v); }
static void dtor_944(void * v) { dtor_body(944, v); }
static void dtor_945(void * v) { dtor_body(945, v); }
static void dtor_946(void * v) { dtor_body(946, v); }
static void dtor_947(void * v) { dtor_body(947, v); }
static void dtor_948(void * v) { dtor_body(948, v); }
static void dtor_949(void * v) { dtor_body(949, v); }
static void dtor_950(void * v) { dtor_body(950, v); }
static void dtor_951(void * v) { dtor_body(951, v); }
static void dtor_952(void * v) { dtor_body(952, v); }
static void dtor_953(void * v) { dtor_body(953, v); }
static void dtor_954(void * v) { dtor_body(954, v); }
static void dtor_955(void * v) { dtor_body(955, v); }
static void dtor_956(void * v) { dtor_body(956, v); }
static void dtor_957(void * v) { dtor_body(957, v); }
static void dtor_958(void * v) { dtor_body(958, v); }
static void dtor_959(void * v) { dtor_body(959, v); }
static void dtor_960(void * v) { dtor_body(960, v); }
static void dtor_961(void * v) { dtor_body(961, v); }
static void dtor_962(void * v) { dtor_body(962, v); }
static void dtor_963(void * v) { dtor_body(963, v); }
static void dtor_964(void * v) { dtor_body(964, v); }
static void dtor_965(void * v) { dtor_body(965, v); }
static void dtor_966(void * v) { dtor_body(966, v); }
static void dtor_967(void * v) { dtor_body(967, v); }
static void dtor_968(void * v) { dtor_body(968, v); }
static void dtor_969(void * v) { dtor_body(969, v); }
static void dtor_970(void * v) { dtor_body(970, v); }
static void dtor_971(void * v) { dtor_body(971, v); }
static void dtor_972(void * v) { dtor_body(972, v); }
static void dtor_973(void * v) { dtor_body(973, v); }
static void dtor_974(void * v) { dtor_body(974, v); }
static void dtor_975(void * v) { dtor_body(975, v); }
static void dtor_976(void * v) { dtor_body(976, v); }
static void dtor_977(void * v) { dtor_body(977, v); }
static void dtor_978(void * v) { dtor_body(978, v); }
static void dtor_979(void * v) { dtor_body(979, v); }
static void dtor_980(void * v) { dtor_body(980, v); }
static void dtor_981(void * v) { dtor_body(981, v); }
static void dtor_982(void * v) { dtor_body(982, v); }
static void dtor_983(void * v) { dtor_body(983, v); }
static void dtor_984(void * v) { dtor_body(984, v); }
static void dtor_985(void * v) { dtor_body(985, v); }
static void dtor_986(void * v) { dtor_body(986, v); }
static void dtor_987(void * v) { dtor_body(987, v); }
static void dtor_988(void * v) { dtor_body(988, v); }
static void dtor_989(void * v) { dtor_body(989, v); }
static void dtor_990(void * v) { dtor_body(990, v); }
static void dtor_991(void * v) { dtor_body(991, v); }
static void dtor_992(void * v) { dtor_body(992, v); }
static void dtor_993(void * v) { dtor_body(993, v); }
static void dtor_994(void * v) { dtor_body(994, v); }
static void dtor_995(void * v) { dtor_body(995, v); }
static void dtor_996(void * v) { dtor_body(996, v); }
static void dtor_997(void * v) { dtor_body(997, v); }
static void dtor_998(void * v) { dtor_body(998, v); }
static void dtor_999(void * v) { dtor_body(999, v); }
static void dtor_1000(void * v) { dtor_body(1000, v); }
static void dtor_1001(void * v) { dtor_body(1001, v); }
static void dtor_1002(void * v) { dtor_body(1002, v); }
static void dtor_1003(void * v) { dtor_body(1003, v); }
static void dtor_1004(void * v) { dtor_body(1004, v); }
static void dtor_1005(void * v) { dtor_body(1005, v); }
static void dtor_1006(void * v) { dtor_body(1006, v); }
static void dtor_1007(void * v) { dtor_body(1007, v); }
static void dtor_1008(void * v) { dtor_body(1008, v); }
static void dtor_1009(void * v) { dtor_body(1009, v); }
static void dtor_1010(void * v) { dtor_body(1010, v); }
static void dtor_1011(void * v) { dtor_body(1011, v); }
static void dtor_1012(void * v) { dtor_body(1012, v); }
static void dtor_1013(void * v) { dtor_body(1013, v); }
static void dtor_1014(void * v) { dtor_body(1014, v); }
static void dtor_1015(void * v) { dtor_body(1015, v); }
static void dtor_1016(void * v) { dtor_body(1016, v); }
static void dtor_1017(void * v) { dtor_body(1017, v); }
static void dtor_1018(void * v) { dtor_body(1018, v); }
static void dtor_1019(void * v) { dtor_body(1019, v); }
static void dtor_1020(void * v) { dtor_body(1020, v); }
static void dtor_1021(void * v) { dtor_body(1021, v); }
static void dtor_1022(void * v) { dtor_body(1022, v); }
static void dtor_1023(void * v) { dtor_body(1023, v); }
static void (* const g_dtor[1024])(void *) = {
  dtor_0, dtor_1, dtor_2, dtor_3, dtor_4, dtor_5, dtor_6, dtor_7,
  dtor_8, dtor_9, dtor_10, dtor_11, dtor_12, dtor_13, dtor_14, dtor_15,
  dtor_16, dtor_17, dtor_18, dtor_19, dtor_20, dtor_21, dtor_22, dtor_23,
  dtor_24, dtor_25, dtor_26, dtor_27, dtor_28, dtor_29, dtor_30, dtor_31,
  dtor_32, dtor_33, dtor_34, dtor_35, dtor_36, dtor_37, dtor_38, dtor_39,
  dtor_40, dtor_41, dtor_42, dtor_43, dtor_44, dtor_45, dtor_46, dtor_47,
  dtor_48, dtor_49, dtor_50, dtor_51, dtor_52, dtor_53, dtor_54, dtor_55,
  dtor_56, dtor_57, dtor_58, dtor_59, dtor_60, dtor_61, dtor_62, dtor_63,
  dtor_64, dtor_65, dtor_66, dtor_67, dtor_68, dtor_69, dtor_70, dtor_71,
  dtor_72, dtor_73, dtor_74, dtor_75, dtor_76, dtor_77, dtor_78, dtor_79,
  dtor_80, dtor_81, dtor_82, dtor_83, dtor_84, dtor_85, dtor_86, dtor_87,
  dtor_88, dtor_89, dtor_90, dtor_91, dtor_92, dtor_93, dtor_94, dtor_95,
  dtor_96, dtor_97, dtor_98, dtor_99, dtor_100, dtor_101, dtor_102, dtor_103,
  dtor_104, dtor_105, dtor_106, dtor_107, dtor_108, dtor_109, dtor_110, dtor_111,
  dtor_112, dtor_113, dtor_114, dtor_115, dtor_116, dtor_117, dtor_118, dtor_119,
  dtor_120, dtor_121, dtor_122, dtor_123, dtor_124, dtor_125, dtor_126, dtor_127,
  dtor_128, dtor_129, dtor_130, dtor_131, dtor_132, dtor_133, dtor_134, dtor_135,
  dtor_136, dtor_137, dtor_138, dtor_139, dtor_140, dtor_141, dtor_142, dtor_143,
  dtor_144, dtor_145, dtor_146, dtor_147, dtor_148, dtor_149, dtor_150, dtor_151,
  dtor_152, dtor_153, dtor_154, dtor_155, dtor_156, dtor_157, dtor_158, dtor_159,
  dtor_160, dtor_161, dtor_162, dtor_163, dtor_164, dtor_165, dtor_166, dtor_167,
  dtor_168, dtor_169, dtor_170, dtor_171, dtor_172, dtor_173, dtor_174, dtor_175,
  dtor_176, dtor_177, dtor_178, dtor_179, dtor_180, dtor_181, dtor_182, dtor_183,
  dtor_184, dtor_185, dtor_186, dtor_187, dtor_188, dtor_189, dtor_190, dtor_191,
  dtor_192, dtor_193, dtor_194, dtor_195, dtor_196, dtor_197, dtor_198, dtor_199,
  dtor_200, dtor_201, dtor_202, dtor_203, dtor_204, dtor_205, dtor_206, dtor_207,
  dtor_208, dtor_209, dtor_210, dtor_211, dtor_212, dtor_213, dtor_214, dtor_215,
  dtor_216, dtor_217, dtor_218, dtor_219, dtor_220, dtor_221, dtor_222, dtor_223,
  dtor_224, dtor_225, dtor_226, dtor_227, dtor_228, dtor_229, dtor_230, dtor_231,
  dtor_232, dtor_233, dtor_234, dtor_235, dtor_236, dtor_237, dtor_238, dtor_239,
  dtor_240, dtor_241, dtor_242, dtor_243, dtor_244, dtor_245, dtor_246, dtor_247,
  dtor_248, dtor_249, dtor_250, dtor_251, dtor_252, dtor_253, dtor_254, dtor_255,
  dtor_256, dtor_257, dtor_258, dtor_259, dtor_260, dtor_261, dtor_262, dtor_263,
  dtor_264, dtor_265, dtor_266, dtor_267, dtor_268, dtor_269, dtor_270, dtor_271,
  dtor_272, dtor_273, dtor_274, dtor_275, dtor_276, dtor_277, dtor_278, dtor_279,
  dtor_280, dtor_281, dtor_282, dtor_283, dtor_284, dtor_285, dtor_286, dtor_287,
  dtor_288, dtor_289, dtor_290, dtor_291, dtor_292, dtor_293, dtor_294, dtor_295,
  dtor_296, dtor_297, dtor_298, dtor_299, dtor_300, dtor_301, dtor_302, dtor_303,
  dtor_304, dtor_305, dtor_306, dtor_307, dtor_308, dtor_309, dtor_310, dtor_311,
  dtor_312, dtor_313, dtor_314, dtor_315, dtor_316, dtor_317, dtor_318, dtor_319,
  dtor_320, dtor_321, dtor_322, dtor_323, dtor_324, dtor_325, dtor_326, dtor_327,
  dtor_328, dtor_329, dtor_330, dtor_331, dtor_332, dtor_333, dtor_334, dtor_335,
  dtor_336, dtor_337, dtor_338, dtor_339, dtor_340, dtor_341, dtor_342, dtor_343,
  dtor_344, dtor_345, dtor_346, dtor_347, dtor_348, dtor_349, dtor_350, dtor_351,
  dtor_352, dtor_353, dtor_354, dtor_355, dtor_356, dtor_357, dtor_358, dtor_359,
  dtor_360, dtor_361, dtor_362, dtor_363, dtor_364, dtor_365, dtor_366, dtor_367,
  dtor_368, dtor_369, dtor_370, dtor_371, dtor_372, dtor_373, dtor_374, dtor_375,
  dtor_376, dtor_377, dtor_378, dtor_379, dtor_380, dtor_381, dtor_382, dtor_383,
  dtor_384, dtor_385, dtor_386, dtor_387, dtor_388, dtor_389, dtor_390, dtor_391,
  dtor_392, dtor_393, dtor_394, dtor_395, dtor_396, dtor_397, dtor_398, dtor_399,
  dtor_400, dtor_401, dtor_402, dtor_403, dtor_404, dtor_405, dtor_406, dtor_407,
  dtor_408, dtor_409, dtor_410, dtor_411, dtor_412, dtor_413, dtor_414, dtor_415,
  dtor_416, dtor_417, dtor_418, dtor_419, dtor_420, dtor_421, dtor_422, dtor_423,
  dtor_424, dtor_425, dtor_426, dtor_427, dtor_428, dtor_429, dtor_430, dtor_431,
  dtor_432, dtor_433, dtor_434, dtor_435, dtor_436, dtor_437, dtor_438, dtor_439,
  dtor_440, dtor_441, dtor_442, dtor_443, dtor_444, dtor_445, dtor_446, dtor_447,
  dtor_448, dtor_449, dtor_450, dtor_451, dtor_452, dtor_453, dtor_454, dtor_455,
  dtor_456, dtor_457, dtor_458, dtor_459, dtor_460, dtor_461, dtor_462, dtor_463,
  dtor_464, dtor_465, dtor_466, dtor_467, dtor_468, dtor_469, dtor_470, dtor_471,
  dtor_472, dtor_473, dtor_474, dtor_475, dtor_476, dtor_477, dtor_478, dtor_479,
  dtor_480, dtor_481, dtor_482, dtor_483, dtor_484, dtor_485, dtor_486, dtor_487,
  dtor_488, dtor_489, dtor_490, dtor_491, dtor_492, dtor_493, dtor_494, dtor_495,
  dtor_496, dtor_497, dtor_498, dtor_499, dtor_500, dtor_501, dtor_502, dtor_503,
  dtor_504, dtor_505, dtor_506, dtor_507, dtor_508, dtor_509, dtor_510, dtor_511,
  dtor_512, dtor_513, dtor_514, dtor_515, dtor_516, dtor_517, dtor_518, dtor_519,
  dtor_520, dtor_521, dtor_522, dtor_523, dtor_524, dtor_525, dtor_526, dtor_527,
  dtor_528, dtor_529, dtor_530, dtor_531, dtor_532, dtor_533, dtor_534, dtor_535,
  dtor_536, dtor_537, dtor_538, dtor_539, dtor_540, dtor_541, dtor_542, dtor_543,
  dtor_544, dtor_545, dtor_546, dtor_547, dtor_548, dtor_549, dtor_550, dtor_551,
  dtor_552, dtor_553, dtor_554, dtor_555, dtor_556, dtor_557, dtor_558, dtor_559,
  dtor_560, dtor_561, dtor_562, dtor_563, dtor_564, dtor_565, dtor_566, dtor_567,
  dtor_568, dtor_569, dtor_570, dtor_571, dtor_572, dtor_573, dtor_574, dtor_575,
  dtor_576, dtor_577, dtor_578, dtor_579, dtor_580, dtor_581, dtor_582, dtor_583,
  dtor_584, dtor_585, dtor_586, dtor_587, dtor_588, dtor_589, dtor_590, dtor_591,
  dtor_592, dtor_593, dtor_594, dtor_595, dtor_596, dtor_597, dtor_598, dtor_599,
  dtor_600, dtor_601, dtor_602, dtor_603, dtor_604, dtor_605, dtor_606, dtor_607,
  dtor_608, dtor_609, dtor_610, dtor_611, dtor_612, dtor_613, dtor_614, dtor_615,
  dtor_616, dtor_617, dtor_618, dtor_619, dtor_620, dtor_621, dtor_622, dtor_623,
  dtor_624, dtor_625, dtor_626, dtor_627, dtor_628, dtor_629, dtor_630, dtor_631,
  dtor_632, dtor_633, dtor_634, dtor_635, dtor_636, dtor_637, dtor_638, dtor_639,
  dtor_640, dtor_641, dtor_642, dtor_643, dtor_644, dtor_645, dtor_646, dtor_647,
  dtor_648, dtor_649, dtor_650, dtor_651, dtor_652, dtor_653, dtor_654, dtor_655,
  dtor_656, dtor_657, dtor_658, dtor_659, dtor_660, dtor_661, dtor_662, dtor_663,
  dtor_664, dtor_665, dtor_666, dtor_667, dtor_668, dtor_669, dtor_670, dtor_671,
  dtor_672, dtor_673, dtor_674, dtor_675, dtor_676, dtor_677, dtor_678, dtor_679,
  dtor_680, dtor_681, dtor_682, dtor_683, dtor_684, dtor_685, dtor_686, dtor_687,
  dtor_688, dtor_689, dtor_690, dtor_691, dtor_692, dtor_693, dtor_694, dtor_695,
  dtor_696, dtor_697, dtor_698, dtor_699, dtor_700, dtor_701, dtor_702, dtor_703,
  dtor_704, dtor_705, dtor_706, dtor_707, dtor_708, dtor_709, dtor_710, dtor_711,
  dtor_712, dtor_713, dtor_714, dtor_715, dtor_716, dtor_717, dtor_718, dtor_719,
  dtor_720, dtor_721, dtor_722, dtor_723, dtor_724, dtor_725, dtor_726, dtor_727,
  dtor_728, dtor_729, dtor_730, dtor_731, dtor_732, dtor_733, dtor_734, dtor_735,
  dtor_736, dtor_737, dtor_738, dtor_739, dtor_740, dtor_741, dtor_742, dtor_743,
  dtor_744, dtor_745, dtor_746, dtor_747, dtor_748, dtor_749, dtor_750, dtor_751,
  dtor_752, dtor_753, dtor_754, dtor_755, dtor_756, dtor_757, dtor_758, dtor_759,
  dtor_760, dtor_761, dtor_762, dtor_763, dtor_764, dtor_765, dtor_766, dtor_767,
  dtor_768, dtor_769, dtor_770, dtor_771, dtor_772, dtor_773, dtor_774, dtor_775,
  dtor_776, dtor_777, dtor_778, dtor_779, dtor_780, dtor_781, dtor_782, dtor_783,
  dtor_784, dtor_785, dtor_786, dtor_787, dtor_788, dtor_789, dtor_790, dtor_791,
  dtor_792, dtor_793, dtor_794, dtor_795, dtor_796, dtor_797, dtor_798, dtor_799,
  dtor_800, dtor_801, dtor_802, dtor_803, dtor_804, dtor_805, dtor_806, dtor_807,
  dtor_808, dtor_809, dtor_810, dtor_811, dtor_812, dtor_813, dtor_814, dtor_815,
  dtor_816, dtor_817, dtor_818, dtor_819, dtor_820, dtor_821, dtor_822, dtor_823,
  dtor_824, dtor_825, dtor_826, dtor_827, dtor_828, dtor_829, dtor_830, dtor_831,
  dtor_832, dtor_833, dtor_834, dtor_835, dtor_836, dtor_837, dtor_838, dtor_839,
  dtor_840, dtor_841, dtor_842, dtor_843, dtor_844, dtor_845, dtor_846, dtor_847,
  dtor_848, dtor_849, dtor_850, dtor_851, dtor_852, dtor_853, dtor_854, dtor_855,
  dtor_856, dtor_857, dtor_858, dtor_859, dtor_860, dtor_861, dtor_862, dtor_863,
  dtor_864, dtor_865, dtor_866, dtor_867, dtor_868, dtor_869, dtor_870, dtor_871,
  dtor_872, dtor_873, dtor_874, dtor_875, dtor_876, dtor_877, dtor_878, dtor_879,
  dtor_880, dtor_881, dtor_882, dtor_883, dtor_884, dtor_885, dtor_886, dtor_887,
  dtor_888, dtor_889, dtor_890, dtor_891, dtor_892, dtor_893, dtor_894, dtor_895,
  dtor_896, dtor_897, dtor_898, dtor_899, dtor_900, dtor_901, dtor_902, dtor_903,
  dtor_904, dtor_905, dtor_906, dtor_907, dtor_908, dtor_909, dtor_910, dtor_911,
  dtor_912, dtor_913, dtor_914, dtor_915, dtor_916, dtor_917, dtor_918, dtor_919,
  dtor_920, dtor_921, dtor_922, dtor_923, dtor_924, dtor_925, dtor_926, dtor_927,
  dtor_928, dtor_929, dtor_930, dtor_931, dtor_932, dtor_933, dtor_934, dtor_935,
  dtor_936, dtor_937, dtor_938, dtor_939, dtor_940, dtor_941, dtor_942, dtor_943,
  dtor_944, dtor_945, dtor_946, dtor_947, dtor_948, dtor_949, dtor_950, dtor_951,
  dtor_952, dtor_953, dtor_954, dtor_955, dtor_956, dtor_957, dtor_958, dtor_959,
  dtor_960, dtor_961, dtor_962, dtor_963, dtor_964, dtor_965, dtor_966, dtor_967,
  dtor_968, dtor_969, dtor_970, dtor_971, dtor_972, dtor_973, dtor_974, dtor_975,
  dtor_976, dtor_977, dtor_978, dtor_979, dtor_980, dtor_981, dtor_982, dtor_983,
  dtor_984, dtor_985, dtor_986, dtor_987, dtor_988, dtor_989, dtor_990, dtor_991,
  dtor_992, dtor_993, dtor_994, dtor_995, dtor_996, dtor_997, dtor_998, dtor_999,
  dtor_1000, dtor_1001, dtor_1002, dtor_1003, dtor_1004, dtor_1005, dtor_1006, dtor_1007,
  dtor_1008, dtor_1009, dtor_1010, dtor_1011, dtor_1012, dtor_1013, dtor_1014, dtor_1015,
  dtor_1016, dtor_1017, dtor_1018, dtor_1019, dtor_1020, dtor_1021, dtor_1022, dtor_1023,
};
