/*
 * h_tls_lib --- C10 (library level) and C11:
 *  - values stored under random key subsets follow the thread across workers,
 *    are private to (thread, key), never-set keys read NULL;
 *  - at thread termination (return / myth_exit / cancellation) every live key
 *    with a destructor and a non-NULL value gets exactly one destructor call
 *    with that value; no call with another key's value, none for keys
 *    registered without a destructor.
 * All 1024 keys are created in order on the fresh allocator, a random subset
 * with destructors (one distinct trampoline per key index).
 * args: seed= batches= threads= nw= dtor_density=<0..100> shapes=<mask>
 */
#ifndef _GNU_SOURCE
#define _GNU_SOURCE
#endif
#include <errno.h>
#include "hkm.h"
#include "tls_dtors.h"

#define NK 1024
#define MAXT 64

static myth_key_t g_key[NK];
static unsigned char g_has_dtor[NK];
static unsigned char g_deleted[NK];
static int g_nkeys;

/* per batch */
static _Atomic int g_calls[MAXT][NK];          /* destructor calls with the thread's own non-NULL value */
static _Atomic int g_null_calls[MAXT][NK];
static unsigned char g_expect[MAXT][NK];       /* thread tag holds a non-NULL value under key at exit */
static _Atomic long g_total_dtor_calls, g_total_null_calls, g_total_expected, g_calls_for_deleted;
static _Atomic long g_sets, g_gets, g_migrated_threads, g_threads;
static int g_batch_gen;

/* value encodes (generation, thread tag, key) */
static inline void * mkval(int gen, int tag, int key, int ver) {
  return (void *)(uintptr_t)((((uint64_t)gen & 0xffff) << 40) | ((uint64_t)ver << 24) | ((uint64_t)tag << 12) | ((uint64_t)key << 1) | 1);
}
static inline int val_key(void * v) { return (int)(((uintptr_t)v >> 1) & 0x3ff); }
static inline int val_tag(void * v) { return (int)(((uintptr_t)v >> 12) & 0xfff); }
static inline int val_gen(void * v) { return (int)(((uintptr_t)v >> 40) & 0xffff); }

static void dtor_body(int key, void * val) {
  if (val == 0) { atomic_fetch_add(&g_total_null_calls, 1); return; }   /* not forbidden; the pinned test relies on it */
  HK_CHECK(key < g_nkeys, "tls-dtor:unregistered", "destructor trampoline of key %d called but that key was never created", key);
  int vk = val_key(val), vt = val_tag(val), vg = val_gen(val);
  HK_CHECK(vk == key, "tls-dtor:wrong-value", "destructor of key %d called with %p, a value stored under key %d (thread tag %d)", key, val, vk, vt);
  HK_CHECK(vg == (g_batch_gen & 0xffff) && vt < MAXT, "tls-dtor:wrong-value", "destructor of key %d called with a stale/garbage value %p", key, val);
  if (g_deleted[key]) { atomic_fetch_add(&g_calls_for_deleted, 1); return; }
  HK_CHECK(g_has_dtor[key], "tls-dtor:unregistered", "a destructor ran for key %d which was registered without one", key);
  int n = atomic_fetch_add(&g_calls[vt][key], 1);
  HK_CHECK(n == 0, "tls-dtor:called-twice", "destructor of key %d called %d times for thread tag %d", key, n + 1, vt);
  atomic_fetch_add(&g_total_dtor_calls, 1);
}

typedef struct { int tag; uint64_t rseed; int shape; int end_kind; } targ_t;

static int pick_keys(hk_rng_t * r, int shape, int * out) {
  int n = 0, i;
  switch (shape) {
  case 0: break;                                                           /* none */
  case 1: out[n++] = (int)hk_below(r, (uint64_t)g_nkeys); break;           /* singleton anywhere */
  case 2: { int blk = (int)hk_below(r, (uint64_t)(g_nkeys + 15) / 16); int k = blk * 16 + (int)hk_below(r, 16); if (k < g_nkeys) out[n++] = k; break; }
  case 3: { int k = g_nkeys - 1 - (int)hk_below(r, 8); if (k >= 0) out[n++] = k; break; }        /* highest keys only */
  case 4: for (i = 0; i < g_nkeys; i += 1 + (int)hk_below(r, 3)) out[n++] = i; break;            /* dense */
  case 5: { int c = 2 + (int)hk_below(r, 6); for (i = 0; i < c; i++) out[n++] = (int)hk_below(r, (uint64_t)g_nkeys); break; }
  case 6: { for (i = 0; i < 4; i++) { int k = i * 256 + 255 - (int)hk_below(r, 3); if (k < g_nkeys && hk_below(r, 2)) out[n++] = k; } break; } /* last leaf of some top branches */
  default: { int k = 16 + (int)hk_below(r, (uint64_t)(g_nkeys > 16 ? g_nkeys - 16 : 1)); if (k < g_nkeys) out[n++] = k; break; }           /* first leaf empty */
  }
  return n;
}

static __attribute__((noinline)) void finish_thread(int kind) {
  if (kind == 1) myth_exit((void *)0x11);
  if (kind == 2) {
    myth_cancel(myth_self());
    myth_testcancel();
    HK_FAIL("tls:cancel", "myth_testcancel returned although cancellation was requested");
  }
}

static void * tls_thread(void * a_) {
  targ_t * a = (targ_t *)a_;
  hk_rng_t r; hk_rng_seed(&r, a->rseed, 71);
  static __thread int dummy; (void)dummy;
  int keys[NK + 8];
  int n = pick_keys(&r, a->shape, keys), i;
  void * shadow[NK];
  memset(shadow, 0, sizeof(shadow));
  atomic_fetch_add(&g_threads, 1);
  /* a fresh thread reads NULL everywhere (the descriptor is recycled: the store must have been reset) */
  for (i = 0; i < 24; i++) {
    int k = (int)hk_below(&r, (uint64_t)g_nkeys);
    void * g = myth_getspecific(g_key[k]);
    HK_CHECK(g == 0, "tls:inherited-value", "new thread tag %d reads %p under key %d before storing anything", a->tag, g, k);
  }
  for (i = 0; i < n; i++) {
    int k = keys[i];
    void * v = mkval(g_batch_gen, a->tag, k, 1);
    int rc = myth_setspecific(g_key[k], v);
    HK_CHECK(rc == 0, "tls:set-rc", "setspecific(key %d) returned %d", k, rc);
    shadow[k] = v;
    atomic_fetch_add(&g_sets, 1);
  }
  /* migrate: yield until resumed on another worker (bounded), re-read everything */
  int w0 = myth_get_worker_num(), tries, moved = 0;
  int nw = myth_get_num_workers();
  for (tries = 0; tries < (nw > 1 ? 60 : 2); tries++) {
    myth_yield_ex(myth_yield_option_steal_first);
    if (myth_get_worker_num() != w0) { moved = 1; break; }
  }
  if (moved) atomic_fetch_add(&g_migrated_threads, 1);
  for (i = 0; i < n; i++) {
    int k = keys[i];
    void * g = myth_getspecific(g_key[k]);
    HK_CHECK(g == shadow[k], "tls:get-mismatch", "thread tag %d (worker %d -> %d): key %d reads %p, stored %p", a->tag, w0, myth_get_worker_num(), k, g, shadow[k]);
    atomic_fetch_add(&g_gets, 1);
  }
  /* overwrite some, clear some */
  for (i = 0; i < n; i++) {
    int k = keys[i];
    unsigned c = (unsigned)hk_below(&r, 6);
    if (c == 0) { myth_setspecific(g_key[k], 0); shadow[k] = 0; }
    else if (c == 1) { void * v = mkval(g_batch_gen, a->tag, k, 2); myth_setspecific(g_key[k], v); shadow[k] = v; }
  }
  /* keys this thread never stored under read NULL, also neighbours in the same leaf */
  for (i = 0; i < 32; i++) {
    int k = (n > 0 && hk_below(&r, 2)) ? (keys[hk_below(&r, (uint64_t)n)] ^ 1) : (int)hk_below(&r, (uint64_t)g_nkeys);
    if (k >= g_nkeys) continue;
    void * g = myth_getspecific(g_key[k]);
    HK_CHECK(g == shadow[k], "tls:visible-to-other", "thread tag %d: key %d reads %p but this thread stored %p", a->tag, k, g, shadow[k]);
  }
  /* out-of-range keys */
  HK_CHECK(myth_getspecific(-1) == 0 && myth_getspecific(NK) == 0, "tls:out-of-range-accepted", "getspecific on an invalid key returned non-NULL");
  HK_CHECK(myth_setspecific(NK, (void *)8) == EINVAL && myth_setspecific(-1, (void *)8) == EINVAL, "tls:out-of-range-accepted", "setspecific on an invalid key did not return EINVAL");
  for (i = 0; i < g_nkeys; i++) g_expect[a->tag][i] = (shadow[i] != 0);
  finish_thread(a->end_kind);
  return (void *)0x22;
}

int main(int argc, char ** argv) {
  hk_init(argc, argv);
  uint64_t seed = hk_seed();
  int batches = (int)hk_arg("batches", 10);
  int nthreads = (int)hk_arg("threads", 24);
  int density = (int)hk_arg("dtor_density", 60);
  if (nthreads > MAXT) nthreads = MAXT;
  hkm_setup();
  hk_rng_t r; hk_rng_seed(&r, seed, 70);
  g_nkeys = (int)hk_arg("nkeys", NK);
  int i, b;
  for (i = 0; i < g_nkeys; i++) {
    g_has_dtor[i] = hk_below(&r, 100) < (uint64_t)density;
    myth_key_t k = -1;
    int rc = myth_key_create(&k, g_has_dtor[i] ? g_dtor[i] : 0);
    HK_CHECK(rc == 0, "tls-key:create-failed", "key_create #%d returned %d", i, rc);
    HK_CHECK(k == i, "tls-key:unexpected-index", "key_create #%d on a fresh allocator returned %d", i, k);
    g_key[i] = k;
  }
  if (g_nkeys == NK) {
    myth_key_t k;
    HK_CHECK(myth_key_create(&k, 0) != 0, "tls-key:limit", "key_create beyond %d keys succeeded", NK);
  }
  /* delete a few keys: calls for them are recorded but nothing is expected */
  int ndel = (int)hk_below(&r, 12);
  for (i = 0; i < ndel; i++) {
    int k = (int)hk_below(&r, (uint64_t)g_nkeys);
    if (!g_deleted[k]) { HK_CHECK(myth_key_delete(g_key[k]) == 0, "tls-key:delete-live-failed", "delete of key %d failed", k); g_deleted[k] = 1; }
  }
  long shapes_seen[8] = { 0 };
  for (b = 0; b < batches; b++) {
    g_batch_gen = b + 1;
    memset((void *)g_calls, 0, sizeof(g_calls));
    memset(g_expect, 0, sizeof(g_expect));
    targ_t args[MAXT];
    myth_thread_t ids[MAXT];
    for (i = 0; i < nthreads; i++) {
      args[i].tag = i; args[i].rseed = hk_rand(&r);
      args[i].shape = (int)hk_below(&r, 8); args[i].end_kind = (int)hk_below(&r, 3);
      shapes_seen[args[i].shape]++;
      ids[i] = myth_create(tls_thread, &args[i]);
    }
    for (i = 0; i < nthreads; i++) {
      void * res = 0;
      myth_join(ids[i], &res);
      void * exp = args[i].end_kind == 0 ? (void *)0x22 : args[i].end_kind == 1 ? (void *)0x11 : PTHREAD_CANCELED;  /* MYTH_CANCELED is defined as PTHREAD_CANCELED inside the library */
      HK_CHECK(res == exp, "tls:exit-value", "thread tag %d (end kind %d) joined with %p", i, args[i].end_kind, res);
    }
    /* compare the destructor log with the model */
    int t, k;
    for (t = 0; t < nthreads; t++) for (k = 0; k < g_nkeys; k++) {
      int want = (g_expect[t][k] && g_has_dtor[k] && !g_deleted[k]) ? 1 : 0;
      int got = atomic_load(&g_calls[t][k]);
      if (want) atomic_fetch_add(&g_total_expected, 1);
      if (got != want) {
        char key[96];
        const char * blk = k >= 256 ? "key>=256" : k >= 64 ? "key>=64" : k >= 16 ? "key>=16" : "key<16";
        snprintf(key, sizeof(key), "tls-dtor:%s:%s", blk, got < want ? "missed" : "unexpected");
        HK_FAIL(key, "thread tag %d (subset shape %d, end kind %d) held a %s value under key %d (destructor %s): destructor ran %d times, expected %d",
                t, args[t].shape, args[t].end_kind, g_expect[t][k] ? "non-NULL" : "NULL/no", k, g_has_dtor[k] ? "registered" : "none", got, want);
      }
    }
  }
  hk_sample("%d keys (%d%% with destructors, %d deleted), %d batches x %d threads; subsets: none/singleton/one-per-16-block/highest/dense/few/last-leaf-of-top-branches/first-leaf-empty; ends: return/myth_exit/cancel", g_nkeys, density, ndel, batches, nthreads);
  hk_report("threads", atomic_load(&g_threads));
  hk_report("threads_observed_on_two_workers", atomic_load(&g_migrated_threads));
  hk_report("sets", atomic_load(&g_sets));
  hk_report("gets_checked", atomic_load(&g_gets));
  hk_report("destructor_calls_expected", atomic_load(&g_total_expected));
  hk_report("destructor_calls_with_own_value", atomic_load(&g_total_dtor_calls));
  hk_report("destructor_calls_with_null_value", atomic_load(&g_total_null_calls));
  hk_report("destructor_calls_for_deleted_keys", atomic_load(&g_calls_for_deleted));
  for (i = 0; i < 8; i++) { char nm[32]; snprintf(nm, sizeof(nm), "subset_shape_%d_threads", i); hk_report(nm, shapes_seen[i]); }
  hk_report("workers", myth_get_num_workers());
  return hk_finish();
}
