/*
 * h_env --- C15 (b): a small program run under generated values of the
 * configuration environment variables.  It must come up, run a fork-join,
 * finalise and print the effective settings; the driver compares them with
 * the documented fallbacks.
 */
#ifndef _GNU_SOURCE
#define _GNU_SOURCE
#endif
#include "hkm.h"

static _Atomic long g_sum;
static void * leaf(void * a) {
  volatile char pad[2048];
  pad[0] = (char)(intptr_t)a; pad[2047] = pad[0];
  atomic_fetch_add(&g_sum, (long)(intptr_t)a + pad[2047] - pad[0]);
  myth_yield();
  return a;
}
static void * mid(void * a) {
  myth_thread_t t[4];
  long i, b = (long)(intptr_t)a;
  for (i = 0; i < 4; i++) t[i] = myth_create(leaf, (void *)(intptr_t)(b * 4 + i));
  for (i = 0; i < 4; i++) myth_join(t[i], 0);
  return 0;
}

int main(int argc, char ** argv) {
  hk_init(argc, argv);
  myth_verif_watchdog_enable(0);
  myth_init();
  size_t stk = 0;
  myth_globalattr_get_stacksize(0, &stk);
  int nw = myth_get_num_workers();
  myth_thread_t t[8];
  long i;
  for (i = 0; i < 8; i++) t[i] = myth_create(mid, (void *)(intptr_t)i);
  for (i = 0; i < 8; i++) myth_join(t[i], 0);
  HK_CHECK(atomic_load(&g_sum) == 31 * 32 / 2, "env:wrong-result", "fork-join sum %ld", atomic_load(&g_sum));
  myth_fini();
  printf("OK nw=%d stk=%zu\n", nw, stk);
  hk_report("workers", nw);
  hk_report("stacksize", (long long)stk);
  return hk_finish();
}
