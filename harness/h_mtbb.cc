/*
 * h_mtbb --- C17 (C++ part): mtbb::task_group and mtbb::parallel_for equal the
 * sequential loop.
 *  task_group: 0..100 run() calls per wait() (beyond the inline 8-entry list and
 *  the 256-byte chunk), nested groups, captures of 1..400 bytes; after wait() every
 *  task's slot is exactly 1.
 *  parallel_for: (first,last,f), (first,last,step,f), grain-size form and range
 *  form over all small (first,last,step,grain) incl. empty, single-element and
 *  reversed ranges: per-index counters equal the sequential loop's; an empty
 *  range must return without calling the body (a recursion-depth fence turns the
 *  infinite recursion into a reported violation).
 * args: seed= cases= nw=
 */
#ifndef _GNU_SOURCE
#define _GNU_SOURCE
#endif
#include <atomic>
#include <vector>
#include <algorithm>
#include <cstring>
#include <cstdio>
#include <pthread.h>
#include <myth/myth.h>
#include <mtbb/task_group.h>
#include <mtbb/parallel_for.h>
#include "hk.h"

static std::atomic<long> g_tasks(0), g_bodies(0), g_pf_cases(0), g_tg_cases(0), g_empty_cases(0);
static __thread int tls_depth_unused;
static std::atomic<int> g_depth(0);
static const int DEPTH_FENCE = 4000;      /* live body/aux invocations at once; real ranges here are <= 64 wide */

template<int N> struct payload { unsigned char b[N]; };

template<int N>
static void run_with_capture(mtbb::task_group & tg, std::atomic<int> * slot, unsigned seed) {
  payload<N> p;
  for (int i = 0; i < N; i++) p.b[i] = (unsigned char)(seed * 31 + i);
  tg.run([p, slot, seed] {
    for (int i = 0; i < N; i++)
      if (p.b[i] != (unsigned char)(seed * 31 + i)) HK_FAIL("mtbb:capture-corrupted", "byte %d of a %d-byte capture changed", i, N);
    slot->fetch_add(1);
    g_tasks.fetch_add(1);
    if (seed & 1) myth_yield();
  });
}

static void tg_case(hk_rng_t * r, int depth) {
  int n = (int)hk_below(r, 4) == 0 ? (int)hk_below(r, 101) : (int)hk_below(r, 20);
  std::vector<std::atomic<int> > slots(n ? n : 1);
  for (int i = 0; i < (n ? n : 1); i++) slots[i] = 0;
  int waits = 1 + (int)hk_below(r, 3);
  mtbb::task_group tg;
  int done = 0;
  for (int w = 0; w < waits; w++) {
    int upto = (w == waits - 1) ? n : done + (int)hk_below(r, (uint64_t)(n - done) + 1);
    for (int i = done; i < upto; i++) {
      unsigned seed = (unsigned)hk_rand(r);
      switch (hk_below(r, 6)) {
      case 0: run_with_capture<1>(tg, &slots[i], seed); break;
      case 1: run_with_capture<24>(tg, &slots[i], seed); break;
      case 2: run_with_capture<120>(tg, &slots[i], seed); break;
      case 3: run_with_capture<250>(tg, &slots[i], seed); break;
      case 4: run_with_capture<400>(tg, &slots[i], seed); break;
      default:
        if (depth < 2) {
          uint64_t sub = hk_rand(r);
          std::atomic<int> * s = &slots[i];
          tg.run([sub, depth, s] { hk_rng_t r2; hk_rng_seed(&r2, sub, 5); tg_case(&r2, depth + 1); s->fetch_add(1); g_tasks.fetch_add(1); });
        } else run_with_capture<8>(tg, &slots[i], seed);
        break;
      }
    }
    tg.wait();
    /* every task handed to the group so far has completed */
    for (int i = 0; i < upto; i++) {
      int v = slots[i].load();
      HK_CHECK(v == 1, v == 0 ? "mtbb:task-not-completed-at-wait" : "mtbb:task-ran-twice", "task %d of %d (wait #%d) ran %d times when wait returned", i, n, w, v);
    }
    done = upto;
  }
  if (depth == 0) g_tg_cases.fetch_add(1);
}

struct depth_guard {
  depth_guard(const char * what, long first, long last, long step) {
    int d = g_depth.fetch_add(1) + 1;
    if (d > DEPTH_FENCE) {
      char key[96];
      snprintf(key, sizeof(key), "parallel_for:%s", last - first <= 0 ? "empty" : "runaway");
      HK_FAIL(key, "%s(first=%ld,last=%ld,step=%ld): more than %d nested body/aux invocations - the recursion does not terminate", what, first, last, step, DEPTH_FENCE);
    }
  }
  ~depth_guard() { g_depth.fetch_sub(1); }
};

/* the index forms recurse through task_group::run, i.e. through thread creation: a recursion that does not
   terminate never reaches the body, it just keeps creating threads.  A real OS thread watches the number of
   live thread stacks (ledger of the hook runtime) and reports the case that is running. */
static volatile long g_cur_first, g_cur_last, g_cur_step, g_cur_form = -1;
static void * runaway_watch(void *) {
  for (;;) {
    myth_verif_real_usleep(5000);
    long live = myth_verif_live_stack();
    if (live > 20000 && g_cur_form >= 0) {
      char key[96];
      snprintf(key, sizeof(key), "parallel_for:%s", g_cur_last - g_cur_first <= 0 ? "empty" : "runaway");
      HK_FAIL(key, "parallel_for form %ld (first=%ld,last=%ld,step=%ld): %ld threads are alive for a range of %ld indices - the recursion does not terminate",
              g_cur_form, g_cur_first, g_cur_last, g_cur_step, live, g_cur_last - g_cur_first);
    }
  }
  return 0;
}

/* a tiny range class with the interface the range form needs */
struct small_range {
  long b, e, g;
  small_range(long b_, long e_, long g_) : b(b_), e(e_), g(g_) {}
  long begin() const { return b; }
  long end() const { return e; }
  long grainsize() const { return g; }
  bool empty() const { return !(b < e); }
  bool is_divisible() const { return e - b > g; }
};
struct range_body {
  std::atomic<int> * cnt; long base;
  void operator()(const small_range & r) const { for (long i = r.begin(); i < r.end(); i++) { cnt[i - base].fetch_add(1); g_bodies.fetch_add(1); } }
};

static void pf_case(hk_rng_t * r) {
  long first = (long)hk_range(r, -8, 8);
  long len = (long)hk_range(r, -3, 40);
  if (hk_below(r, 5) == 0) len = (long)hk_range(r, -2, 1);     /* empty / reversed / single */
  long last = first + len;
  long step = 1 + (long)hk_below(r, 5);
  long grain = 1 + (long)hk_below(r, 7);
  int form = (int)hk_below(r, 4);
  long lo = first - 64, span = 64 + 64 + 64;
  std::vector<std::atomic<int> > cnt(span);
  std::vector<int> want(span, 0);
  for (long i = 0; i < span; i++) cnt[i] = 0;
  std::atomic<int> * c = &cnt[0];
  g_depth = 0;
  g_cur_first = first; g_cur_last = last; g_cur_step = step; g_cur_form = form;
  if (len <= 0) g_empty_cases.fetch_add(1);
  hk_crumb("parallel_for");
  switch (form) {
  case 0:
    for (long i = first; i < last; i++) want[i - lo]++;
    mtbb::parallel_for(first, last, [c, lo, first, last](long i) { depth_guard dg("parallel_for(first,last,f)", first, last, 1); c[i - lo].fetch_add(1); g_bodies.fetch_add(1); if (i & 1) myth_yield(); });
    break;
  case 1:
    for (long i = first; i < last; i += step) want[i - lo]++;
    mtbb::parallel_for(first, last, step, [c, lo, first, last, step](long i) { depth_guard dg("parallel_for(first,last,step,f)", first, last, step); c[i - lo].fetch_add(1); g_bodies.fetch_add(1); });
    break;
  case 2: {
    /* the grain-size form only instantiates for Index = int (it passes a literal 0) */
    for (long i = first; i < last; i += step) want[i - lo]++;
    int ifirst = (int)first, ilast = (int)last, istep = (int)step, igrain = (int)grain;
    mtbb::parallel_for(ifirst, ilast, istep, igrain, [c, lo, first, last, step](int a, int b) {
      depth_guard dg("parallel_for(first,last,step,grain,f)", first, last, step);
      for (long i = a; i < b && i < last; i += step) { c[i - lo].fetch_add(1); g_bodies.fetch_add(1); }
    });
    break;
  }
  default: {
    for (long i = first; i < last; i++) want[i - lo]++;
    small_range rg(first, last, grain);
    range_body body = { c, lo };
    mtbb::parallel_for(rg, body);
    break;
  }
  }
  hk_crumb(0);
  g_cur_form = -1;
  for (long i = 0; i < span; i++) {
    int got = cnt[i].load();
    if (got != want[i]) {
      char key[96];
      snprintf(key, sizeof(key), "parallel_for:%s", len <= 0 ? "empty" : (got < want[i] ? "index-skipped" : "index-repeated"));
      HK_FAIL(key, "form %d (first=%ld,last=%ld,step=%ld,grain=%ld): index %ld was visited %d times, the sequential loop visits it %d times", form, first, last, step, grain, lo + i, got, want[i]);
    }
  }
  g_pf_cases.fetch_add(1);
}


/* very large index ranges through the grain-size form (the only form whose leaf count stays small): the body only
   records the sub-range it is handed; afterwards the sub-ranges must tile [first, first + n*step) exactly, in order,
   without gaps, overlaps or indices outside the range */
static std::atomic<long> g_huge_cases, g_huge_chunks;
struct chunk_t { long a, b; };
static chunk_t g_chunks[4096];
static std::atomic<int> g_nchunks;
static void pf_huge_case(hk_rng_t * r) {
  static const long lens[] = { (1L << 30) - 1, 1L << 30, (1L << 30) + 1, 1500000000L, 2000000000L, 2147483647L, 3L << 28, 100000000L };
  long len = lens[hk_below(r, sizeof(lens) / sizeof(lens[0]))];
  long first;
  switch (hk_below(r, 4)) {
  case 0: first = 0; break;
  case 1: first = 2147483647L - len; break;                       /* last == INT_MAX */
  case 2: first = -(long)hk_below(r, 1000000000UL); if (first + len > 2147483647L) first = 2147483647L - len; break;
  default: first = -1000000000L; if (first + len > 2147483647L) first = 2147483647L - len; break;
  }
  long last = first + len;
  long step = hk_below(r, 4) == 0 ? 1 + (long)hk_below(r, 1000) : 1;
  if (hk_below(r, 5) == 0) {
    /* ranges within `step` of the largest length the index type allows, with iteration offsets that still fit */
    static const long sp[][2] = { { 2147483646L, 3 }, { 2147483646L, 6 }, { 2147483645L, 5 }, { 2147483646L, 2 }, { 2147483643L, 3 } };
    unsigned k = (unsigned)hk_below(r, 5);
    len = sp[k][0]; step = sp[k][1];
    first = hk_below(r, 2) ? 0 : 2147483647L - len;
    last = first + len;
  }
  long n = (len + step - 1) / step;                               /* iterations */
  /* the library addresses iteration k as first + k*step in the index type: keep n*step and first + n*step inside int
     (a range whose iteration offsets do not fit the index type is outside what the interface can express) */
  if (first + n * step > 2147483647L || n * step > 2147483647L) { step = 1; n = len; }
  long grain = n / (long)hk_range(r, 3, 200) + 1;
  g_nchunks = 0;
  g_cur_first = first; g_cur_last = last; g_cur_step = step; g_cur_form = 2;
  hk_crumb("parallel_for(huge range)");
  mtbb::parallel_for((int)first, (int)last, (int)step, (int)grain, [](int a, int b) {
    int k = g_nchunks.fetch_add(1);
    if (k < 4096) { g_chunks[k].a = a; g_chunks[k].b = b; }
  });
  hk_crumb(0);
  g_cur_form = -1;
  int nc = g_nchunks.load();
  HK_CHECK(nc > 0 && nc <= 4096, "parallel_for:chunk-count", "range [%ld,%ld) step %ld grain %ld: the body was called %d times", first, last, step, grain, nc);
  std::sort(g_chunks, g_chunks + nc, [](const chunk_t & x, const chunk_t & y) { return x.a < y.a; });
  long expect = first;
  for (int k = 0; k < nc; k++) {
    const char * what = g_chunks[k].a < expect ? "index-repeated" : g_chunks[k].a > expect ? "index-skipped" : 0;
    if (g_chunks[k].a < first || g_chunks[k].b > first + n * step || g_chunks[k].b <= g_chunks[k].a) what = "index-outside-range";
    if (what) {
      char key[96];
      snprintf(key, sizeof(key), "parallel_for:%s", what);
      HK_FAIL(key, "grain-size form on [%ld,%ld) step %ld grain %ld (%ld iterations): chunk %d of %d is [%ld,%ld), expected a chunk starting at %ld inside [%ld,%ld)",
              first, last, step, grain, n, k, nc, g_chunks[k].a, g_chunks[k].b, expect, first, first + n * step);
      return;
    }
    HK_CHECK((g_chunks[k].b - g_chunks[k].a + step - 1) / step <= grain, "parallel_for:grain-exceeded", "chunk [%ld,%ld) has more than %ld iterations", g_chunks[k].a, g_chunks[k].b, grain);
    expect = g_chunks[k].b;
  }
  HK_CHECK(expect == first + n * step, "parallel_for:index-skipped", "grain-size form on [%ld,%ld) step %ld: the chunks end at %ld, expected %ld", first, last, step, expect, first + n * step);
  g_huge_cases.fetch_add(1); g_huge_chunks.fetch_add(nc);
}

int main(int argc, char ** argv) {
  hk_init(argc, argv);
  uint64_t seed = hk_seed();
  int cases = (int)hk_arg("cases", 400);
  long nw = hk_arg("nw", 0);
  if (nw > 0) myth_globalattr_set_n_workers(0, (size_t)nw);
  myth_init();
  { pthread_t wt; pthread_create(&wt, 0, runaway_watch, 0); }
  hk_rng_t r; hk_rng_seed(&r, seed, 130);
  (void)tls_depth_unused;
  for (int i = 0; i < cases; i++) { unsigned w = (unsigned)hk_below(&r, 12); if (w < 4) tg_case(&r, 0); else if (w == 4) pf_huge_case(&r); else pf_case(&r); }
  hk_sample("%ld task_group cases (0-100 run() per wait, captures 1-400 bytes, nesting <= 3) and %ld parallel_for cases (4 forms, first in [-8,8], length in [-3,40], step 1-5, grain 1-7; %ld empty or reversed)",
            g_tg_cases.load(), g_pf_cases.load(), g_empty_cases.load());
  hk_report("task_group_cases", g_tg_cases.load());
  hk_report("tasks_run", g_tasks.load());
  hk_report("parallel_for_cases", g_pf_cases.load());
  hk_report("parallel_for_huge_range_cases", g_huge_cases.load());
  hk_report("parallel_for_huge_range_chunks", g_huge_chunks.load());
  hk_report("parallel_for_empty_or_reversed_cases", g_empty_cases.load());
  hk_report("body_invocations", g_bodies.load());
  hk_report("workers", myth_get_num_workers());
  return hk_finish();
}
