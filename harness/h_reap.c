/*
 * h_reap --- C12 and C13.
 * The ownership ledger (hook runtime) watches every record/stack acquisition and
 * release in the process; this harness adds
 *  - whole-stack canaries verified after every resumption, custom stack sizes
 *    from a few pages to 8 MiB incl. non-powers of two, many simultaneously live
 *    threads, late joins after many intervening creations (exit value intact);
 *  - a release callback: a record may be released only after its function has
 *    returned and a reaping operation was requested;
 *  - all reaping kinds (join, tryjoin, timedjoin, detach before/after finish,
 *    detach-state attribute), each followed by exactly one release;
 *  - bounded memory: create/reap cycles on the calling worker must not keep
 *    allocating fresh records/stacks.
 * args: seed= mode=(mix|cycles|live) n= nw= maxpages=
 */
#ifndef _GNU_SOURCE
#define _GNU_SOURCE
#endif
#include <errno.h>
#include <pthread.h>
#include "hkm.h"

enum { R_JOIN, R_TRYJOIN, R_TIMEDJOIN, R_DETACH_EARLY, R_DETACH_LATE, R_ATTR_DETACHED, N_REAP };
static const char * const reap_name[N_REAP] = { "join", "tryjoin", "timedjoin", "detach_before_finish", "detach_after_finish", "detachstate_attr" };

typedef struct rec {
  _Atomic(myth_thread_t) id;
  int tag;
  int kind;
  size_t stack_size;        /* 0 = default */
  size_t canary;            /* bytes of stack array */
  int yields;
  uint64_t rseed;
  _Atomic int fn_returned;
  _Atomic int reap_requested;
  _Atomic int released;
  _Atomic uint64_t ret_stamp;
  _Atomic int where;          /* progress marker for diagnostics: 1 started, 10+y in step y, 100+y yielding, 200+y create/join, 300 at gate, 900 returned */
  _Atomic int where_worker;
  uint32_t gen;
  myth_mutex_t * gate_m; myth_cond_t * gate_c; volatile int * gate_open;   /* optional: block until opened */
} rec_t;

static rec_t * g_rec;
static int g_nrec;
static _Atomic long g_cnt[N_REAP], g_canary_bytes, g_canary_checks, g_tryjoin_busy, g_tryjoin_ok, g_timedjoin_timeouts;
static _Atomic long g_rel_checked, g_rel_unknown;

static double now_s(void) { struct timespec t; clock_gettime(CLOCK_MONOTONIC, &t); return (double)t.tv_sec + 1e-9 * (double)t.tv_nsec; }

/* ------------------------------------------------------------------ id -> rec map (open addressing) */
#define MAPN (1 << 18)
static struct { _Atomic(myth_thread_t) id; _Atomic(rec_t *) r; } g_map[MAPN];
static void map_put(myth_thread_t id, rec_t * r) {
  uint32_t h = (uint32_t)(hk_mix((uint64_t)(uintptr_t)id) >> 46), i;
  for (i = 0; i < MAPN; i++) {
    uint32_t s = (h + i) & (MAPN - 1);
    myth_thread_t cur = atomic_load(&g_map[s].id);
    if (cur == id || cur == 0) {
      myth_thread_t z = 0;
      if (cur == id || atomic_compare_exchange_strong(&g_map[s].id, &z, id) || z == id) { atomic_store(&g_map[s].r, r); return; }
    }
  }
}
static rec_t * map_take(myth_thread_t id) {
  uint32_t h = (uint32_t)(hk_mix((uint64_t)(uintptr_t)id) >> 46), i;
  for (i = 0; i < MAPN; i++) {
    uint32_t s = (h + i) & (MAPN - 1);
    myth_thread_t cur = atomic_load(&g_map[s].id);
    if (cur == id) return atomic_exchange(&g_map[s].r, (rec_t *)0);
    if (cur == 0) return 0;
  }
  return 0;
}

/* runs inside the library's record release, before the ledger marks it free */
static void on_desc_release(void * th) {
  rec_t * r = map_take((myth_thread_t)th);
  if (!r) { atomic_fetch_add(&g_rel_unknown, 1); return; }
  HK_CHECK(atomic_load(&r->fn_returned), "reap:record-released-before-finish",
           "record %p of tag %d (%s) released although its function has not returned", th, r->tag, reap_name[r->kind]);
  HK_CHECK(atomic_load(&r->reap_requested), "reap:record-released-unreaped",
           "record %p of tag %d (%s) released although no join/tryjoin/timedjoin/detach was requested", th, r->tag, reap_name[r->kind]);
  int n = atomic_fetch_add(&r->released, 1);
  HK_CHECK(n == 0, "reap:released-twice", "record of tag %d released %d times", r->tag, n + 1);
  atomic_fetch_add(&g_rel_checked, 1);
}

static inline unsigned char cpat(int tag, size_t i) { return (unsigned char)((hk_mix((uint64_t)tag + (i >> 3)) >> ((i & 7) * 8)) | 1); }
static inline void * value_of(int tag) { return (void *)(uintptr_t)((hk_mix((uint64_t)tag * 31 + 7) << 1) | 1); }

static void * trivial(void * a) { return a; }
static size_t g_reserve = 9000, g_maxcanary = 2 * 1024 * 1024;
static int g_minpages = 4;

static __attribute__((noinline)) void body(rec_t * r, size_t n) {
  volatile unsigned char arr[n ? n : 1];
  size_t i;
  for (i = 0; i < n; i++) arr[i] = cpat(r->tag, i);
  atomic_fetch_add(&g_canary_bytes, (long)n);
  int y;
  hk_rng_t rng; hk_rng_seed(&rng, r->rseed, 81);
  for (y = 0; y <= r->yields; y++) {
    atomic_store(&r->where, 10 + y); atomic_store(&r->where_worker, myth_get_worker_num());
    if (y < r->yields) {
      unsigned k = (unsigned)hk_below(&rng, 3);
      if (k == 0) { atomic_store(&r->where, 100 + y); myth_yield_ex(myth_yield_option_steal_first); }
      else if (k == 1) { atomic_store(&r->where, 150 + y); myth_yield(); }
      else { atomic_store(&r->where, 200 + y); myth_thread_t c = myth_create(trivial, 0); atomic_store(&r->where, 250 + y); myth_join(c, 0); }
      atomic_store(&r->where, 20 + y); atomic_store(&r->where_worker, myth_get_worker_num());
    }
    if (r->gate_m && y == 0) {
      myth_mutex_lock(r->gate_m);
      while (!*r->gate_open) myth_cond_wait(r->gate_c, r->gate_m);
      myth_mutex_unlock(r->gate_m);
    }
    for (i = 0; i < n; i++) {
      if (arr[i] != cpat(r->tag, i))
        HK_FAIL("stack:canary-corrupted", "tag %d (%s, stack %zu): byte %zu of its %zu-byte stack array is 0x%02x, expected 0x%02x after resumption %d",
                r->tag, reap_name[r->kind], r->stack_size, i, n, arr[i], cpat(r->tag, i), y);
    }
    atomic_fetch_add(&g_canary_checks, 1);
  }
}

static void * thread_main(void * a_) {
  rec_t * r = (rec_t *)a_;
  atomic_store(&r->where, 1);
  body(r, r->canary);
  atomic_store(&r->where, 900);
  atomic_store(&r->ret_stamp, myth_verif_stamp());
  atomic_store(&r->fn_returned, 1);
  return value_of(r->tag);
}

static void start(rec_t * r) {
  myth_thread_attr_t at;
  myth_thread_attr_init(&at);
  if (r->stack_size) myth_thread_attr_setstacksize(&at, r->stack_size);
  if (r->kind == R_ATTR_DETACHED) {
    myth_thread_attr_setdetachstate(&at, PTHREAD_CREATE_DETACHED);
    atomic_store(&r->reap_requested, 1);
  }
  if (r->rseed & 4) at.child_first = 0;
  myth_thread_t id = 0;
  int rc = myth_create_ex(&id, (r->stack_size || r->kind == R_ATTR_DETACHED || (r->rseed & 4)) ? &at : 0, thread_main, r);
  HK_CHECK(rc == 0 && id, "create:failed", "create returned %d", rc);
  atomic_store(&r->id, id);
  if (r->kind != R_ATTR_DETACHED) { r->gen = myth_verif_desc_gen(id); map_put(id, r); }
  atomic_fetch_add(&g_cnt[r->kind], 1);
}

static void reap(rec_t * r) {
  myth_thread_t id = atomic_load(&r->id);
  void * res = (void *)0x5;
  switch (r->kind) {
  case R_JOIN: {
    atomic_store(&r->reap_requested, 1);
    int rc = myth_join(id, &res);
    HK_CHECK(rc == 0 && res == value_of(r->tag), "reap:exit-value", "join of tag %d: rc %d value %p, expected %p", r->tag, rc, res, value_of(r->tag));
    break;
  }
  case R_TRYJOIN: {
    atomic_store(&r->reap_requested, 1);
    long spins = 0;
    double tj0 = now_s();
    for (;;) {
      uint64_t fin = myth_verif_finished_stamp(id, r->gen);
      uint64_t c0 = myth_verif_stamp();
      myth_verif_nb_begin("myth_tryjoin");
      int rc = myth_tryjoin(id, &res);
      myth_verif_nb_end();
      if (rc == 0) {
        HK_CHECK(atomic_load(&r->fn_returned), "reap:tryjoin-succeeded-on-running-thread", "tryjoin of tag %d returned 0 before its function returned", r->tag);
        HK_CHECK(res == value_of(r->tag), "reap:exit-value", "tryjoin of tag %d delivered %p", r->tag, res);
        atomic_fetch_add(&g_tryjoin_ok, 1);
        break;
      }
      HK_CHECK(rc == EBUSY, "reap:tryjoin-rc", "tryjoin returned %d", rc);
      HK_CHECK(!(fin && fin < c0), "reap:tryjoin-busy-on-finished-thread",
               "tryjoin of tag %d reported busy although the target had published its finished state at stamp %llu, before the call (stamp %llu)",
               r->tag, (unsigned long long)fin, (unsigned long long)c0);
      atomic_fetch_add(&g_tryjoin_busy, 1);
      myth_yield();
      if ((++spins & 0xfff) == 0) HK_CHECK(now_s() - tj0 < 120.0, "reap:tryjoin-never-succeeds",
          "tryjoin of tag %d still busy after 120 s and %ld attempts: target progress marker %d (last seen on worker %d), function returned %d, finished stamp %llu, yields %d, child_first %d, stack %zu",
          r->tag, spins, atomic_load(&r->where), atomic_load(&r->where_worker), atomic_load(&r->fn_returned),
          (unsigned long long)myth_verif_finished_stamp(id, r->gen), r->yields, !(r->rseed & 4), r->stack_size);
    }
    break;
  }
  case R_TIMEDJOIN: {
    atomic_store(&r->reap_requested, 1);
    for (;;) {
      struct timespec dl, now;
      int past = (int)(r->rseed & 1);
      clock_gettime(CLOCK_REALTIME, &dl);
      if (past) dl.tv_sec -= 1; else dl.tv_sec += 3600;
      int rc = myth_timedjoin(id, &res, &dl);
      clock_gettime(CLOCK_REALTIME, &now);
      if (rc == 0) { HK_CHECK(res == value_of(r->tag), "reap:exit-value", "timedjoin of tag %d delivered %p", r->tag, res); break; }
      HK_CHECK(rc == EBUSY || rc == ETIMEDOUT, "reap:timedjoin-rc", "timedjoin returned %d", rc);
      HK_CHECK(now.tv_sec > dl.tv_sec || (now.tv_sec == dl.tv_sec && now.tv_nsec > dl.tv_nsec), "reap:timedjoin-gave-up-early",
               "timedjoin of tag %d gave up although the clock had not passed its deadline", r->tag);
      HK_CHECK(past, "reap:timedjoin-gave-up-early", "timedjoin with a deadline one hour away gave up");
      atomic_fetch_add(&g_timedjoin_timeouts, 1);
      r->rseed ^= 1;     /* next attempt with a far deadline */
    }
    break;
  }
  case R_DETACH_EARLY: case R_DETACH_LATE: {
    if (r->kind == R_DETACH_LATE) { int k; for (k = 0; k < 3 && !atomic_load(&r->fn_returned); k++) myth_yield(); }
    atomic_store(&r->reap_requested, 1);
    int rc = myth_detach(id);
    HK_CHECK(rc == 0, "reap:detach-rc", "detach returned %d", rc);
    break;
  }
  default: break;   /* detached by attribute */
  }
}

static void choose_stack(rec_t * r, hk_rng_t * rng, int maxpages) {
  static const int pages[] = { 0, 0, 0, 4, 5, 8, 16, 32, 33, 64, 128, 256, 512, 2048 };
  int p = pages[hk_below(rng, sizeof(pages) / sizeof(pages[0]))];
  if (p > maxpages) p = 0;
  if (p && p < g_minpages) p = g_minpages;
  r->stack_size = (size_t)p * 4096;
  if (p && hk_below(rng, 4) == 0) r->stack_size -= 1000 + hk_below(rng, 3000);   /* rounded up to pages by the library */
  size_t usable = p ? (size_t)p * 4096 : 128 * 1024;
  size_t reserve = g_reserve;
  r->canary = usable > reserve + 512 ? (usable - reserve) * (1 + hk_below(rng, 3)) / 3 : 0;
  if (r->canary > g_maxcanary) r->canary = g_maxcanary;
}

/* wait (bounded) until every record created so far has been released */
static void settle(const char * what) {
  long spins = 0;
  int i;
  double t0 = now_s();
  for (;;) {
    int pending = 0;
    for (i = 0; i < g_nrec; i++) if (atomic_load(&g_rec[i].id) && g_rec[i].kind != R_ATTR_DETACHED && !atomic_load(&g_rec[i].released)) pending++;
    if (!pending) break;
    myth_yield();
    if ((++spins & 0xfff) == 0 && now_s() - t0 > 20.0) {
      for (i = 0; i < g_nrec; i++) if (atomic_load(&g_rec[i].id) && g_rec[i].kind != R_ATTR_DETACHED && !atomic_load(&g_rec[i].released))
        HK_FAIL("reap:record-never-released", "%s: record of tag %d (%s) was reaped but never released (%d pending)", what, i, reap_name[g_rec[i].kind], pending);
    }
  }
}

/* ------------------------------------------------------------------ modes */
static void mode_mix(hk_rng_t * rng, int n, int maxpages) {
  /* windows of threads: start W, reap them in random order after creating more */
  int done = 0;
  while (done < n) {
    int w = 1 + (int)hk_below(rng, 64), i;
    if (done + w > n) w = n - done;
    for (i = 0; i < w; i++) {
      rec_t * r = &g_rec[done + i];
      r->tag = done + i; r->kind = (int)hk_below(rng, N_REAP); r->rseed = hk_rand(rng); r->yields = (int)hk_below(rng, 4);
      choose_stack(r, rng, maxpages);
      start(r);
      if (r->kind == R_DETACH_EARLY) reap(r);
    }
    int order[64];
    for (i = 0; i < w; i++) order[i] = i;
    for (i = w - 1; i > 0; i--) { int j = (int)hk_below(rng, (uint64_t)i + 1); int t = order[i]; order[i] = order[j]; order[j] = t; }
    for (i = 0; i < w; i++) { rec_t * r = &g_rec[done + order[i]]; if (r->kind != R_DETACH_EARLY) reap(r); }
    done += w;
    g_nrec = done;
  }
  settle("mix");
}

/* many simultaneously live threads blocked on a gate, joined late */
static void mode_live(hk_rng_t * rng, int n, int maxpages) {
  static myth_mutex_t m; static myth_cond_t c; static volatile int open_;
  myth_mutex_init(&m, 0); myth_cond_init(&c, 0); open_ = 0;
  int i;
  for (i = 0; i < n; i++) {
    rec_t * r = &g_rec[i];
    r->tag = i; r->kind = (i % 5 == 0) ? R_DETACH_EARLY : R_JOIN; r->rseed = hk_rand(rng) & ~4ULL; r->yields = 1;
    choose_stack(r, rng, maxpages > 64 ? 64 : maxpages);
    if (r->canary > 32768) r->canary = 32768;
    r->gate_m = &m; r->gate_c = &c; r->gate_open = &open_;
    start(r);
    if (r->kind == R_DETACH_EARLY) reap(r);
  }
  g_nrec = n;
  HK_CHECK(myth_verif_live_stack() >= n, "ledger:harness", "only %ld stacks live with %d blocked threads", myth_verif_live_stack(), n);
  myth_mutex_lock(&m); open_ = 1; myth_cond_broadcast(&c); myth_mutex_unlock(&m);
  for (i = n - 1; i >= 0; i--) if (g_rec[i].kind == R_JOIN) reap(&g_rec[i]);   /* late joins: exit values intact */
  settle("live");
}

/* create/reap cycles of one kind: fresh allocations stay bounded */
static void mode_cycles(hk_rng_t * rng, int n, int kind) {
  long fd0 = myth_verif_fresh_desc(), fs0 = myth_verif_fresh_stack();
  int i, lag = 8;
  for (i = 0; i < n; i++) {
    rec_t * r = &g_rec[i % 1024];
    memset(r, 0, sizeof(*r));
    r->tag = i; r->kind = kind; r->rseed = hk_rand(rng) & ~4ULL; r->yields = 0; r->stack_size = 0; r->canary = 256;
    start(r);
    reap(r);
    if ((i & 1023) == 1023 && myth_get_num_workers() == 1) {
      /* one worker: a finished thread's resources return to this worker's lists */
      long fd = myth_verif_fresh_desc() - fd0, fs = myth_verif_fresh_stack() - fs0;
      if (fd > lag || fs > lag) {
        char key[96];
        snprintf(key, sizeof(key), "reap:unbounded-memory:%s", reap_name[kind]);
        HK_FAIL(key, "after %d create/%s cycles on one worker %ld fresh records and %ld fresh stacks were allocated (at most %d expected)", i + 1, reap_name[kind], fd, fs, lag);
      }
    }
  }
  g_nrec = 0;
  hk_report("cycles_fresh_records", myth_verif_fresh_desc() - fd0);
  hk_report("cycles_fresh_stacks", myth_verif_fresh_stack() - fs0);
}

int main(int argc, char ** argv) {
  hk_init(argc, argv);
  uint64_t seed = hk_seed();
  const char * mode = hk_arg_s("mode", "mix");
  int n = (int)hk_arg("n", 2000);
  int maxpages = (int)hk_arg("maxpages", 2048);
  g_reserve = (size_t)hk_arg("reserve", 9000);
  g_minpages = (int)hk_arg("minpages", 4);
  g_maxcanary = (size_t)hk_arg("maxcanary", 2 * 1024 * 1024);
  myth_verif_set_desc_rel_cb(on_desc_release);
  hkm_setup();
  hk_rng_t rng; hk_rng_seed(&rng, seed, 80);
  g_rec = (rec_t *)calloc((size_t)(n > 1024 ? n : 1024) + 64, sizeof(rec_t));
  if (!strcmp(mode, "mix")) mode_mix(&rng, n, maxpages);
  else if (!strcmp(mode, "live")) mode_live(&rng, n, maxpages);
  else {
    int kind = (int)hk_arg("kind", 0);
    mode_cycles(&rng, n, kind);
    hk_report_s("cycle_kind", reap_name[kind]);
  }
  /* quiescence: everything ever obtained is free exactly once, except the main thread's record */
  {
    long spins = 0;
    double t0 = now_s();
    while (myth_verif_live_stack() > 0 || myth_verif_live_desc() > 1) {   /* detached threads may still be switching away */
      myth_yield();
      if ((++spins & 0xfff) == 0 && now_s() - t0 > 20.0)
        HK_FAIL("ledger:not-released-at-quiescence", "%ld records and %ld stacks still marked in use after every thread was reaped and finished",
                myth_verif_live_desc() - 1, myth_verif_live_stack());
    }
  }
  hk_sample("mode %s: %d threads; reaping kinds join/tryjoin/timedjoin/detach early/detach late/detach-state attribute; stacks default and 4..2048 pages incl. non-page-multiples, canaries up to 2 MiB", mode, n);
  int k;
  for (k = 0; k < N_REAP; k++) { char nm[48]; snprintf(nm, sizeof(nm), "reaped_by_%s", reap_name[k]); hk_report(nm, atomic_load(&g_cnt[k])); }
  hk_report("canary_bytes", atomic_load(&g_canary_bytes));
  hk_report("canary_checks_after_resumption", atomic_load(&g_canary_checks));
  hk_report("tryjoin_busy", atomic_load(&g_tryjoin_busy));
  hk_report("tryjoin_ok", atomic_load(&g_tryjoin_ok));
  hk_report("timedjoin_timeouts_after_deadline", atomic_load(&g_timedjoin_timeouts));
  hk_report("releases_checked_by_callback", atomic_load(&g_rel_checked));
  hk_report("releases_of_untracked_records", atomic_load(&g_rel_unknown));
  hk_report("fresh_records", myth_verif_fresh_desc());
  hk_report("fresh_stacks", myth_verif_fresh_stack());
  hk_report("record_acquisitions", myth_verif_desc_acq_count());
  hk_report("stack_acquisitions", myth_verif_stack_acq_count());
  hk_report("workers", myth_get_num_workers());
  return hk_finish();
}
