/*
 * h_ctx --- C03: registers and stack survive every context switch and migration;
 * every function entered on a thread stack sees an ABI-aligned stack.
 *
 * A pure-assembly routine (global asm, not inline asm) loads six seed-derived
 * patterns into rbx, rbp, r12-r15, calls a C "switcher" that makes one switching
 * library call, and stores the six registers on return; the C caller compares.
 * The caller additionally keeps a 1-48 KiB pattern array on its own stack.
 * Thread entry points are assembly stubs that test rsp on entry.
 *
 * args: seed= groups= gsize= steps= nw=
 */
#ifndef _GNU_SOURCE
#define _GNU_SOURCE
#endif
#include <errno.h>
#include "hkm.h"

/* long ctx_probe(long (*fn)(void *), void * arg, const uint64_t pat[6], uint64_t out[6]) */
long ctx_probe(long (*fn)(void *), void * arg, const uint64_t * pat, uint64_t * out);
/* thread entry stub: checks (rsp + 8) % 16 == 0 on entry, then tail-calls probe_thread_c */
void * probe_entry_stub(void * arg);
void * probe_thread_c(void * arg);
void entry_misaligned(void * rsp_at_entry);

__asm__(
  ".text\n"
  ".globl ctx_probe\n"
  ".type ctx_probe,@function\n"
  "ctx_probe:\n"
  "  push %rbx\n  push %rbp\n  push %r12\n  push %r13\n  push %r14\n  push %r15\n"
  "  sub $24,%rsp\n"                 /* 8 (ret) + 48 + 24 = 80: rsp is 16-byte aligned for the call */
  "  mov %rcx,0(%rsp)\n"
  "  mov 0(%rdx),%rbx\n  mov 8(%rdx),%rbp\n  mov 16(%rdx),%r12\n"
  "  mov 24(%rdx),%r13\n  mov 32(%rdx),%r14\n  mov 40(%rdx),%r15\n"
  "  mov %rdi,%rax\n  mov %rsi,%rdi\n"
  "  call *%rax\n"
  "  mov 0(%rsp),%rcx\n"
  "  mov %rbx,0(%rcx)\n  mov %rbp,8(%rcx)\n  mov %r12,16(%rcx)\n"
  "  mov %r13,24(%rcx)\n  mov %r14,32(%rcx)\n  mov %r15,40(%rcx)\n"
  "  add $24,%rsp\n"
  "  pop %r15\n  pop %r14\n  pop %r13\n  pop %r12\n  pop %rbp\n  pop %rbx\n"
  "  ret\n"
  ".size ctx_probe,.-ctx_probe\n"
  ".globl probe_entry_stub\n"
  ".type probe_entry_stub,@function\n"
  "probe_entry_stub:\n"
  "  lea 8(%rsp),%rax\n"
  "  test $15,%al\n"
  "  jnz 1f\n"
  "  jmp probe_thread_c\n"
  "1:\n"
  "  mov %rsp,%rdi\n"
  "  and $-16,%rsp\n"
  "  call entry_misaligned\n"
  "  ud2\n"
  ".size probe_entry_stub,.-probe_entry_stub\n"
);

void entry_misaligned(void * rsp_at_entry) {
  HK_FAIL("align:thread-entry", "a thread start routine was entered with rsp=%p ((rsp+8)%%16 != 0)", rsp_at_entry);
}

enum { K_YIELD0, K_YIELD1, K_YIELD2, K_YIELD3, K_YIELD4, K_CREATE_CF, K_CREATE_PF, K_JOIN_FINISHED, K_MUTEX,
       K_CONDRING, K_BARRIER, K_JCBAR, K_UNCOND, K_FELOCK, K_USLEEP, K_TRYJOIN, K_TIMEDJOIN, K_ONCE, K_TIMEDLOCK, N_KINDS };
static const char * const kind_name[N_KINDS] = {
  "yield_half_half", "yield_local_only", "yield_local_first", "yield_steal_only", "yield_steal_first",
  "create_child_first+join", "create_parent_first+join", "join_finished_target", "mutex_lock_contended",
  "cond_wait_ring", "barrier_wait", "join_counter_wait", "uncond_wait/signal", "felock_handoff", "usleep",
  "tryjoin_poll", "timedjoin", "once", "timedlock" };

typedef struct { myth_mutex_t m; myth_cond_t c; long tokens; } sem_t_;
typedef struct group {
  int G, steps;
  int * kinds;
  myth_barrier_t bar;
  myth_mutex_t mx;
  sem_t_ * sem;
  myth_join_counter_t * jc;          /* one per step of kind K_JCBAR */
  /* pairs */
  myth_uncond_t * un;                /* 2 per pair */
  _Atomic long * unflag;             /* 2 per pair */
  myth_felock_t * fe;                /* 1 per pair */
  myth_once_t * once;                /* one per step of kind K_ONCE */
  uint64_t seed;
} group_t;

static group_t * g_groups;
static _Atomic long g_probes[N_KINDS], g_migr[N_KINDS], g_stackbytes;
static _Atomic long g_children, g_spurious_signals;
static int g_oddstack;

typedef struct { group_t * g; int me; int step; hk_rng_t * r; } swarg_t;

static void * child_fn(void * a) { long v = (long)(intptr_t)a; atomic_fetch_add(&g_children, 1); if (v & 1) myth_yield(); return (void *)(intptr_t)(v + 1); }
static void once_init_fn(void) { myth_yield(); }

/* post: signal under the mutex, or (equally legal) after releasing it */
static void sem_post_(sem_t_ * s, int outside) {
  myth_mutex_lock(&s->m); s->tokens++;
  if (outside) { myth_mutex_unlock(&s->m); myth_cond_signal(&s->c); }
  else { myth_cond_signal(&s->c); myth_mutex_unlock(&s->m); }
}
static long sw_sem_wait(void * a_) { sem_t_ * s = (sem_t_ *)a_; myth_mutex_lock(&s->m); while (s->tokens == 0) myth_cond_wait(&s->c, &s->m); s->tokens--; myth_mutex_unlock(&s->m); return 1; }
static long sw_yield(void * a_) { myth_yield_ex((int)(intptr_t)a_); return 2; }
static long sw_create_join(void * a_) {
  swarg_t * a = (swarg_t *)a_;
  int pf = a->g->kinds[a->step] == K_CREATE_PF;
  myth_thread_attr_t at;
  myth_thread_attr_init(&at);
  at.child_first = pf ? 0 : 1;
  myth_thread_t id;
  long v = (long)hk_below(a->r, 1000);
  myth_create_ex(&id, &at, child_fn, (void *)(intptr_t)v);
  void * res = 0;
  myth_join(id, &res);
  HK_CHECK((long)(intptr_t)res == v + 1, "ctx:child-result", "child returned %ld, expected %ld", (long)(intptr_t)res, v + 1);
  return 3;
}
static long sw_join_finished(void * a_) {
  swarg_t * a = (swarg_t *)a_;
  myth_thread_t id = myth_create(child_fn, (void *)(intptr_t)2);
  int k;
  for (k = 0; k < 3; k++) myth_yield();
  (void)a;
  myth_join(id, 0);
  return 4;
}
static long sw_mutex(void * a_) {
  swarg_t * a = (swarg_t *)a_;
  myth_mutex_lock(&a->g->mx);
  hk_work((unsigned)hk_below(a->r, 400));
  if (hk_below(a->r, 4) == 0) myth_yield();
  myth_mutex_unlock(&a->g->mx);
  return 5;
}
static long sw_timedlock(void * a_) {
  swarg_t * a = (swarg_t *)a_;
  struct timespec ts; hkm_abstime_in(&ts, 3600);
  int rc = myth_mutex_timedlock(&a->g->mx, &ts);
  HK_CHECK(rc == 0, "ctx:timedlock", "timedlock returned %d", rc);
  hk_work(100);
  myth_mutex_unlock(&a->g->mx);
  return 6;
}
static long sw_barrier(void * a_) { swarg_t * a = (swarg_t *)a_; myth_barrier_wait(&a->g->bar); return 7; }
static long sw_jc(void * a_) { swarg_t * a = (swarg_t *)a_; myth_join_counter_t * jc = &a->g->jc[a->step]; myth_join_counter_dec(jc); myth_join_counter_wait(jc); return 8; }
static long sw_uncond_wait(void * a_) { myth_uncond_wait((myth_uncond_t *)a_); return 9; }
static long sw_usleep(void * a_) { myth_usleep((useconds_t)(intptr_t)a_); return 10; }
static long sw_tryjoin(void * a_) {
  (void)a_;
  myth_thread_t id = myth_create(child_fn, (void *)(intptr_t)1);
  long spins = 0;
  void * res;
  while (myth_tryjoin(id, &res) == EBUSY) { myth_yield(); HK_CHECK(++spins < 100000000L, "ctx:tryjoin", "tryjoin never succeeded"); }
  return 11;
}
static long sw_timedjoin(void * a_) {
  (void)a_;
  myth_thread_t id = myth_create(child_fn, (void *)(intptr_t)3);
  struct timespec ts; hkm_abstime_in(&ts, 3600);
  void * res = 0;
  int rc = myth_timedjoin(id, &res, &ts);
  HK_CHECK(rc == 0, "ctx:timedjoin", "timedjoin with a deadline one hour away returned %d", rc);
  return 12;
}
static long sw_once(void * a_) { swarg_t * a = (swarg_t *)a_; myth_once(&a->g->once[a->step], once_init_fn); return 13; }
static long sw_felock_put(void * a_) { myth_felock_t * f = (myth_felock_t *)a_; myth_felock_wait_and_lock(f, 0); myth_felock_mark_and_signal(f, 1); return 14; }
static long sw_felock_get(void * a_) { myth_felock_t * f = (myth_felock_t *)a_; myth_felock_wait_and_lock(f, 1); myth_felock_mark_and_signal(f, 0); return 15; }

static void probe(int kind, long (*fn)(void *), void * arg, uint64_t tag, long expect) {
  uint64_t pat[6], out[6];
  int i;
  for (i = 0; i < 6; i++) { pat[i] = hk_mix(tag * 6 + (uint64_t)i) | 0x8000000000000001ULL; out[i] = 0; }
  int w0 = myth_get_worker_num();
  long rv = ctx_probe(fn, arg, pat, out);
  int w1 = myth_get_worker_num();
  static const char * const rn[6] = { "rbx", "rbp", "r12", "r13", "r14", "r15" };
  for (i = 0; i < 6; i++) {
    if (out[i] != pat[i]) {
      char key[96];
      snprintf(key, sizeof(key), "ctx:register-clobbered:%s", rn[i]);
      HK_FAIL(key, "after switcher '%s' (worker %d -> %d) %s = %#llx, expected %#llx",
              kind_name[kind], w0, w1, rn[i], (unsigned long long)out[i], (unsigned long long)pat[i]);
    }
  }
  HK_CHECK(rv == expect, "ctx:return-value", "switcher '%s' returned %ld, expected %ld", kind_name[kind], rv, expect);
  atomic_fetch_add(&g_probes[kind], 1);
  if (w0 != w1) atomic_fetch_add(&g_migr[kind], 1);
}

static __attribute__((noinline)) void run_steps(group_t * g, int me, hk_rng_t * r, size_t arrsz) {
  volatile unsigned char arr[arrsz];
  size_t i;
  uint64_t atag = hk_mix(g->seed ^ (uint64_t)me * 977);
  for (i = 0; i < arrsz; i++) arr[i] = (unsigned char)(hk_mix(atag + (i >> 3)) >> ((i & 7) * 8));
  atomic_fetch_add(&g_stackbytes, (long)arrsz);
  int s;
  for (s = 0; s < g->steps; s++) {
    int kind = g->kinds[s];
    swarg_t a = { g, me, s, r };
    uint64_t tag = hk_mix(g->seed + (uint64_t)me * 100003 + (uint64_t)s);
    int pair = me / 2, odd = me & 1, has_partner = (me ^ 1) < g->G;
    switch (kind) {
    case K_YIELD0: case K_YIELD1: case K_YIELD2: case K_YIELD3: case K_YIELD4:
      probe(kind, sw_yield, (void *)(intptr_t)(kind - K_YIELD0), tag, 2); break;
    case K_CREATE_CF: case K_CREATE_PF: probe(kind, sw_create_join, &a, tag, 3); break;
    case K_JOIN_FINISHED: probe(kind, sw_join_finished, &a, tag, 4); break;
    case K_MUTEX: probe(kind, sw_mutex, &a, tag, 5); break;
    case K_TIMEDLOCK: probe(kind, sw_timedlock, &a, tag, 6); break;
    case K_BARRIER: probe(kind, sw_barrier, &a, tag, 7); break;
    case K_JCBAR: probe(kind, sw_jc, &a, tag, 8); break;
    case K_CONDRING:
      sem_post_(&g->sem[(me + 1) % g->G], (int)hk_below(r, 2));
      /* a signal that changes nothing, issued without the mutex, is legal at any time (waiters
         re-check their predicate): it may land at any instant of somebody's wait */
      if (hk_below(r, 2)) { myth_cond_signal(&g->sem[hk_below(r, (uint64_t)g->G)].c); atomic_fetch_add(&g_spurious_signals, 1); }
      probe(kind, sw_sem_wait, &g->sem[me], tag, 1);
      break;
    case K_UNCOND:
      if (!has_partner) break;
      if (!odd) {
        /* even: wake the partner (it waits on un[2p+1]) then wait on un[2p] */
        long spins = 0;
        for (;;) { long e = 1; if (atomic_compare_exchange_strong(&g->unflag[2 * pair + 1], &e, 0)) break; myth_yield(); HK_CHECK(++spins < 400000000L, "ctx:uncond", "partner never announced"); }
        myth_uncond_signal(&g->un[2 * pair + 1]);
        atomic_store(&g->unflag[2 * pair], 1);
        probe(kind, sw_uncond_wait, &g->un[2 * pair], tag, 9);
      } else {
        atomic_store(&g->unflag[2 * pair + 1], 1);
        probe(kind, sw_uncond_wait, &g->un[2 * pair + 1], tag, 9);
        long spins = 0;
        for (;;) { long e = 1; if (atomic_compare_exchange_strong(&g->unflag[2 * pair], &e, 0)) break; myth_yield(); HK_CHECK(++spins < 400000000L, "ctx:uncond", "partner never announced"); }
        myth_uncond_signal(&g->un[2 * pair]);
      }
      break;
    case K_FELOCK:
      if (!has_partner) break;
      probe(kind, odd ? sw_felock_get : sw_felock_put, &g->fe[pair], tag, odd ? 15 : 14);
      break;
    case K_USLEEP: probe(kind, sw_usleep, (void *)(intptr_t)(1 + hk_below(r, 60)), tag, 10); break;
    case K_TRYJOIN: probe(kind, sw_tryjoin, &a, tag, 11); break;
    case K_TIMEDJOIN: probe(kind, sw_timedjoin, &a, tag, 12); break;
    case K_ONCE: probe(kind, sw_once, &a, tag, 13); break;
    }
    /* the caller's own stack frame must be intact after every resumption */
    if ((s & 7) == 7 || s == g->steps - 1) {
      for (i = 0; i < arrsz; i++) {
        unsigned char e = (unsigned char)(hk_mix(atag + (i >> 3)) >> ((i & 7) * 8));
        if (arr[i] != e) HK_FAIL("ctx:stack-corrupted", "thread %d: byte %zu of its %zu-byte stack array is 0x%02x, expected 0x%02x (after step %d '%s')",
                                 me, i, arrsz, arr[i], e, s, kind_name[kind]);
      }
    }
  }
}

typedef struct { group_t * g; int me; uint64_t rseed; } parg_t;

void * probe_thread_c(void * arg) {
  parg_t * p = (parg_t *)arg;
  hk_rng_t r; hk_rng_seed(&r, p->rseed, 61);
  size_t arrsz = 1024 + (size_t)hk_below(&r, 47 * 1024);
  run_steps(p->g, p->me, &r, arrsz);
  return 0;
}

static void * group_main(void * a_) {
  group_t * g = (group_t *)a_;
  int i;
  parg_t * pa = (parg_t *)calloc((size_t)g->G, sizeof(parg_t));
  myth_thread_t * ids = (myth_thread_t *)calloc((size_t)g->G, sizeof(myth_thread_t));
  for (i = 0; i < g->G; i++) {
    pa[i].g = g; pa[i].me = i; pa[i].rseed = hk_mix(g->seed + (uint64_t)i);
    myth_thread_attr_t at;
    myth_thread_attr_init(&at);
    if (i & 1) at.child_first = 0;          /* first entered through myth_entry_point (parent-first) */
    /* stack sizes that are not multiples of 16 (the library takes them verbatim): the entry stub and the
       alignment hooks see whether the initial stack pointer is still aligned as the ABI requires */
    static const size_t odd[] = { 0, 0, 8, 24, 4, 1 };
    myth_thread_attr_setstacksize(&at, 256 * 1024 + (g_oddstack ? odd[(g->seed + (uint64_t)i) % 6] : 0));
    if ((i & 3) == 2) ids[i] = myth_create(probe_entry_stub, &pa[i]);   /* NULL attribute: default size (MYTH_DEF_STKSIZE), child-first */
    else myth_create_ex(&ids[i], &at, probe_entry_stub, &pa[i]);
  }
  for (i = 0; i < g->G; i++) myth_join(ids[i], 0);
  free(pa); free(ids);
  return 0;
}

int main(int argc, char ** argv) {
  hk_init(argc, argv);
  g_oddstack = (int)hk_arg("oddstack", 0);
  uint64_t seed = hk_seed();
  int ngroups = (int)hk_arg("groups", 8);
  int gsize = (int)hk_arg("gsize", 16);
  int steps = (int)hk_arg("steps", 200);
  hkm_setup();
  g_groups = (group_t *)calloc((size_t)ngroups, sizeof(group_t));
  myth_thread_t * gids = (myth_thread_t *)calloc((size_t)ngroups, sizeof(myth_thread_t));
  int gi, s, i;
  for (gi = 0; gi < ngroups; gi++) {
    group_t * g = &g_groups[gi];
    hk_rng_t r; hk_rng_seed(&r, seed, (uint64_t)gi);
    g->G = gsize > 1 ? 2 + (int)hk_below(&r, (uint64_t)gsize - 1) : 1;
    g->steps = steps; g->seed = hk_rand(&r);
    g->kinds = (int *)calloc((size_t)steps, sizeof(int));
    g->jc = (myth_join_counter_t *)calloc((size_t)steps, sizeof(myth_join_counter_t));
    g->once = (myth_once_t *)calloc((size_t)steps, sizeof(myth_once_t));
    for (s = 0; s < steps; s++) {
      g->kinds[s] = (int)hk_below(&r, N_KINDS);
      if (g->kinds[s] == K_JCBAR) myth_join_counter_init(&g->jc[s], 0, g->G);
    }
    myth_barrier_init(&g->bar, 0, g->G);
    myth_mutex_init(&g->mx, 0);
    g->sem = (sem_t_ *)calloc((size_t)g->G, sizeof(sem_t_));
    for (i = 0; i < g->G; i++) { myth_mutex_init(&g->sem[i].m, 0); myth_cond_init(&g->sem[i].c, 0); }
    int pairs = (g->G + 1) / 2;
    g->un = (myth_uncond_t *)calloc((size_t)pairs * 2, sizeof(myth_uncond_t));
    g->unflag = (_Atomic long *)calloc((size_t)pairs * 2, sizeof(_Atomic long));
    g->fe = (myth_felock_t *)calloc((size_t)pairs, sizeof(myth_felock_t));
    for (i = 0; i < pairs; i++) { myth_uncond_init(&g->un[2 * i]); myth_uncond_init(&g->un[2 * i + 1]); myth_felock_init(&g->fe[i], 0); }
  }
  for (gi = 0; gi < ngroups; gi++) gids[gi] = myth_create(group_main, &g_groups[gi]);
  for (gi = 0; gi < ngroups; gi++) myth_join(gids[gi], 0);
  long total = 0, nomig = 0;
  char buf[64];
  for (i = 0; i < N_KINDS; i++) {
    total += atomic_load(&g_probes[i]);
    snprintf(buf, sizeof(buf), "probes_%s", kind_name[i]); hk_report(buf, atomic_load(&g_probes[i]));
    snprintf(buf, sizeof(buf), "migrated_%s", kind_name[i]); hk_report(buf, atomic_load(&g_migr[i]));
    if (atomic_load(&g_probes[i]) && !atomic_load(&g_migr[i])) nomig++;
  }
  hk_sample("%d groups of 2..%d probe threads (odd ones created parent-first), %d steps each over %d switcher kinds; stack arrays 1-48 KiB", ngroups, gsize, steps, N_KINDS);
  hk_report("probes", total);
  hk_report("switcher_kinds_never_migrated_in_this_run", nomig);
  hk_report("stack_array_bytes", atomic_load(&g_stackbytes));
  hk_report("cond_signals_without_mutex_and_without_state_change", atomic_load(&g_spurious_signals));
  hk_report("workers", myth_get_num_workers());
  return hk_finish();
}
