/*
 * h_cpulist --- C15 (c): unit harness on the CPU-list parser
 * (includes src/myth_bind_worker.c): strings from a grammar-based generator
 * (a, a-b, a-b:c, commas) and from mutations of them, against an independent
 * reference parser.  well-formed -> same list (too many numbers -> error);
 * malformed -> -1; never a crash.
 * args: seed= cases=
 */
#ifndef _GNU_SOURCE
#define _GNU_SOURCE
#endif
#include <ctype.h>
#include "myth_config.h"
#include "myth_bind_worker.c"
#include "hk.h"

#define CAP 1024

/* reference: returns count or -1; grammar: range (',' range)* ; range = int ['-' int [':' int]] ; [a,b) step c */
static int ref_int(const char * s, size_t * i, long * out) {
  long x = 0; int nd = 0;
  while (s[*i] >= '0' && s[*i] <= '9') { x = x * 10 + (s[*i] - '0'); (*i)++; nd++; if (x > 100000000L) return -2; }
  if (!nd) return -1;
  *out = x;
  return 0;
}
static int ref_parse(const char * s, int * a, int cap) {
  size_t i = 0;
  int n = 0;
  for (;;) {
    long lo, hi, st = 1;
    int e = ref_int(s, &i, &lo);
    if (e) return e;
    hi = lo + 1;
    if (s[i] == '-') {
      i++;
      if ((e = ref_int(s, &i, &hi))) return e;
      if (s[i] == ':') { i++; if ((e = ref_int(s, &i, &st))) return e; }
    }
    long x;
    for (x = lo; x < hi; x += st) { if (n >= cap) return -1; a[n++] = (int)x; }
    if (s[i] == ',') { i++; continue; }
    break;
  }
  if (s[i] != '\0') return -1;
  return n;
}

static void gen_wellformed(hk_rng_t * r, char * buf, size_t cap) {
  size_t o = 0;
  int ranges = 1 + (int)hk_below(r, 6), k;
  for (k = 0; k < ranges; k++) {
    long a = (long)hk_below(r, hk_below(r, 4) ? 64 : 3000);
    if (k) o += (size_t)snprintf(buf + o, cap - o, ",");
    switch (hk_below(r, 4)) {
    case 0: o += (size_t)snprintf(buf + o, cap - o, "%ld", a); break;
    case 1: o += (size_t)snprintf(buf + o, cap - o, "%ld-%ld", a, a + (long)hk_below(r, 40)); break;
    case 2: o += (size_t)snprintf(buf + o, cap - o, "%ld-%ld:%ld", a, a + (long)hk_below(r, 200), (long)hk_below(r, 9)); break;
    default: o += (size_t)snprintf(buf + o, cap - o, "%ld-%ld", a, (long)hk_below(r, 64)); break;   /* possibly empty (b <= a) */
    }
  }
}
static void mutate(hk_rng_t * r, char * buf, size_t cap) {
  static const char junk[] = " \t\n\r-:,;+.abcxyz#/\\\"'%\x01\x7f\xff" "0123456789";
  size_t n = strlen(buf);
  int m = 1 + (int)hk_below(r, 3);
  while (m-- > 0) {
    size_t pos = n ? (size_t)hk_below(r, n + 1) : 0;
    switch (hk_below(r, 4)) {
    case 0: if (n + 1 < cap) { memmove(buf + pos + 1, buf + pos, n - pos + 1); buf[pos] = junk[hk_below(r, sizeof(junk) - 1)]; n++; } break;
    case 1: if (n > 0 && pos < n) { memmove(buf + pos, buf + pos + 1, n - pos); n--; } break;
    case 2: if (pos < n) buf[pos] = junk[hk_below(r, sizeof(junk) - 1)]; break;
    default: buf[pos < n ? pos : n] = 0; n = strlen(buf); break;
    }
  }
}

int main(int argc, char ** argv) {
  hk_init(argc, argv);
  uint64_t seed = hk_seed();
  long cases = hk_arg("cases", 20000);
  hk_rng_t r; hk_rng_seed(&r, seed, 110);
  long wf = 0, mal = 0, agree_ok = 0, agree_err = 0, i;
  static const char * fixed[] = { "", " ", "\n", "0,1\n", "0\n", "\n0", "0,", ",0", "0,,1", "-", "0-", "0-3:", ":", "3-1", "0-4:0", "0-2000", "5-5",
                                  "0-1024", "0-1025", "0 ", " 0", "0 ,1", "a", "0x10", "+1", "-1", "1-2-3", "1:2", "0-8:2:1", "99999", "\t", "0,1,2,3,4,5,6,7" };
  int * got = (int *)malloc(sizeof(int) * CAP), * want = (int *)malloc(sizeof(int) * CAP);
  FILE * devnull = freopen("/dev/null", "w", stderr);   /* the parser prints a diagnostic for every malformed list */
  (void)devnull;
  for (i = 0; i < cases; i++) {
    char buf[512];
    if (i < (long)(sizeof(fixed) / sizeof(fixed[0]))) snprintf(buf, sizeof(buf), "%s", fixed[i]);
    else { gen_wellformed(&r, buf, sizeof(buf) - 8); if (hk_below(&r, 2)) mutate(&r, buf, sizeof(buf) - 8); }
    int w = ref_parse(buf, want, CAP);
    if (w == -2) continue;           /* numbers beyond 10^8: well-formed but unusable, excluded */
    setenv("VERIF_CPU_LIST", buf, 1);
    hk_crumb("myth_parse_cpu_list");
    int g = myth_parse_cpu_list("VERIF_CPU_LIST", got, CAP);
    hk_crumb(0);
    if (w >= 0) wf++; else mal++;
    if (w < 0) {
      if (g != -1) {
        char key[64]; snprintf(key, sizeof(key), "cpulist:malformed-accepted");
        HK_FAIL(key, "malformed list '%s' was accepted with %d entries", buf, g);
      }
      agree_err++;
    } else {
      HK_CHECK(g == w, "cpulist:wrong-list", "list '%s': parser returned %d entries, reference %d", buf, g, w);
      HK_CHECK(memcmp(got, want, sizeof(int) * (size_t)w) == 0, "cpulist:wrong-list", "list '%s': entries differ from the reference", buf);
      agree_ok++;
    }
    if (i < 3 || (i > 40 && i < 43)) hk_sample("'%s' -> %d", buf, g);
  }
  hk_report("cases", cases);
  hk_report("wellformed", wf);
  hk_report("malformed", mal);
  hk_report("agree_list", agree_ok);
  hk_report("agree_error", agree_err);
  return hk_finish();
}
