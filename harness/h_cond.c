/*
 * h_cond --- C05: condition variables.  Patterns whose completion and final
 * counters are determinate only if no wake-up is lost: bounded buffer,
 * turnstile, gate (broadcast), ping-pong.
 * Rules checked on every wait return (mutex held): holder witness; a wake-up
 * has a cause issued after the wait began (sigs > gen).
 * args: seed= progs= nw= pattern=(0 any,1 bb,2 turnstile,3 gate,4 pingpong,5 token release)
 */
#ifndef _GNU_SOURCE
#define _GNU_SOURCE
#endif
#include "hkm.h"

typedef struct { myth_mutex_t m; _Atomic int occ; } hmx_t;
typedef struct { myth_cond_t c; volatile long sigs; volatile long nwaiting; int loose; /* signalled outside the mutex too: generation rule not applicable */ } hcv_t;

static _Atomic long g_waits, g_signals, g_broadcasts, g_signal_outside, g_signal_spurious, g_sig_nowaiter, g_waits_resumed_elsewhere;

static inline void enter(hmx_t * x) {
  int o = atomic_fetch_add(&x->occ, 1);
  HK_CHECK(o == 0, "cond:mutex-not-held-exclusively", "%d other holder(s) inside the critical section", o);
}
static inline void leave(hmx_t * x) {
  int o = atomic_fetch_sub(&x->occ, 1);
  HK_CHECK(o == 1, "cond:mutex-not-held-exclusively", "occupancy %d when leaving the critical section", o);
}
static void L(hmx_t * x) { myth_mutex_lock(&x->m); enter(x); hk_progress(); }
static void U(hmx_t * x) { leave(x); myth_mutex_unlock(&x->m); }
static void W(hcv_t * c, hmx_t * x) {
  long gen = c->sigs;
  c->nwaiting++;
  leave(x);
  int w0 = myth_get_worker_num();
  int rc = myth_cond_wait(&c->c, &x->m);
  enter(x);   /* wait returned: we must hold the mutex */
  if (myth_get_worker_num() != w0) atomic_fetch_add(&g_waits_resumed_elsewhere, 1);
  HK_CHECK(rc == 0, "cond:wait-rc", "cond_wait returned %d", rc);
  c->nwaiting--;
  atomic_fetch_add(&g_waits, 1);
  hk_progress();
  HK_CHECK(c->loose || c->sigs > gen, "cond:wakeup-without-signal",
           "wait returned but no signal/broadcast was issued on this condition after the wait began (sigs %ld, at entry %ld)",
           c->sigs, gen);
}
/* signal with the mutex held */
static void S(hcv_t * c) {
  if (c->nwaiting == 0) atomic_fetch_add(&g_sig_nowaiter, 1);
  c->sigs++;
  myth_cond_signal(&c->c);
  atomic_fetch_add(&g_signals, 1);
}
static void B(hcv_t * c) {
  c->sigs++;
  myth_cond_broadcast(&c->c);
  atomic_fetch_add(&g_broadcasts, 1);
}
/* announce under the mutex, unlock, then signal outside it */
static void US(hcv_t * c, hmx_t * x) {
  c->sigs++;
  U(x);
  myth_cond_signal(&c->c);
  atomic_fetch_add(&g_signals, 1);
  atomic_fetch_add(&g_signal_outside, 1);
}
static void cv_init(hcv_t * c) { myth_cond_init(&c->c, 0); c->sigs = 0; c->nwaiting = 0; c->loose = 0; }
static void mx_init(hmx_t * x) { myth_mutex_init(&x->m, 0); atomic_store(&x->occ, 0); }

/* ---------------------------------------------------------------- bounded buffer */
static struct {
  hmx_t x; hcv_t not_full, not_empty;
  int cap, count, head, tail;
  long buf[8];
  int P, C, per;
  _Atomic int * got;
  int outside;
} bb;

static void * bb_producer(void * a_) {
  hkm_targ_t * a = (hkm_targ_t *)a_;
  hk_rng_t r; hk_rng_seed(&r, a->rseed, 1);
  int i;
  for (i = 0; i < bb.per; i++) {
    long id = (long)a->idx * bb.per + i;
    /* a signal that changes nothing, without the mutex: legal at any instant of anybody's wait */
    if (bb.outside && hk_below(&r, 3) == 0) { myth_cond_signal(hk_below(&r, 2) ? &bb.not_empty.c : &bb.not_full.c); atomic_fetch_add(&g_signal_spurious, 1); }
    L(&bb.x);
    while (bb.count == bb.cap) W(&bb.not_full, &bb.x);
    bb.buf[bb.tail] = id; bb.tail = (bb.tail + 1) % bb.cap; bb.count++;
    if (bb.outside && hk_below(&r, 2)) US(&bb.not_empty, &bb.x);
    else { S(&bb.not_empty); U(&bb.x); }
    hkm_jitter(&r, 600);
  }
  return 0;
}
static void * bb_consumer(void * a_) {
  hkm_targ_t * a = (hkm_targ_t *)a_;
  hk_rng_t r; hk_rng_seed(&r, a->rseed, 2);
  long n = (long)(intptr_t)a->user, i;
  for (i = 0; i < n; i++) {
    if (bb.outside && hk_below(&r, 3) == 0) { myth_cond_signal(hk_below(&r, 2) ? &bb.not_empty.c : &bb.not_full.c); atomic_fetch_add(&g_signal_spurious, 1); }
    L(&bb.x);
    while (bb.count == 0) W(&bb.not_empty, &bb.x);
    long id = bb.buf[bb.head]; bb.head = (bb.head + 1) % bb.cap; bb.count--;
    if (bb.outside && hk_below(&r, 2)) US(&bb.not_full, &bb.x);
    else { S(&bb.not_full); U(&bb.x); }
    int g = atomic_fetch_add(&bb.got[id], 1);
    HK_CHECK(g == 0, "cond:item-consumed-twice", "item %ld consumed %d times", id, g + 1);
    hkm_jitter(&r, 600);
  }
  return 0;
}
/* in signal-outside mode: a bystander that keeps issuing state-less signals without the mutex for as long as the
   program runs (legal at any instant; every waiter re-checks its predicate) */
static _Atomic int g_bb_stop;
static void * bb_pest(void * a_) {
  (void)a_;
  long n = 0;
  while (!atomic_load(&g_bb_stop)) {
    myth_cond_signal(&bb.not_empty.c);
    myth_cond_signal(&bb.not_full.c);
    n += 2;
    if ((n & 7) == 0) myth_yield();
  }
  atomic_fetch_add(&g_signal_spurious, n);
  return 0;
}
static void * bb_thread(void * a_) {
  hkm_targ_t * a = (hkm_targ_t *)a_;
  return a->idx < bb.P ? bb_producer(a_) : bb_consumer(a_);
}
static long run_bb(hk_rng_t * r) {
  mx_init(&bb.x); cv_init(&bb.not_full); cv_init(&bb.not_empty);
  bb.cap = 1 + (int)hk_below(r, 8); bb.count = bb.head = bb.tail = 0;
  bb.P = 1 + (int)hk_below(r, 6); bb.C = 1 + (int)hk_below(r, 6);
  bb.per = 20 + (int)hk_below(r, 300);
  bb.outside = (int)hk_below(r, 2);
  bb.not_full.loose = bb.not_empty.loose = bb.outside;
  long total = (long)bb.P * bb.per;
  bb.got = (_Atomic int *)calloc((size_t)total, sizeof(_Atomic int));
  int n = bb.P + bb.C, i;
  hkm_targ_t * args = (hkm_targ_t *)calloc((size_t)n, sizeof(hkm_targ_t));
  for (i = 0; i < n; i++) {
    args[i].idx = i; args[i].rseed = hk_rand(r);
    if (i >= bb.P) { int ci = i - bb.P; long share = total / bb.C + (ci < total % bb.C ? 1 : 0); args[i].user = (void *)(intptr_t)share; }
  }
  myth_thread_t pest = 0;
  atomic_store(&g_bb_stop, 0);
  if (bb.outside && myth_get_num_workers() > 1 && hk_below(r, 2)) pest = myth_create(bb_pest, 0);
  hkm_run_threads(n, bb_thread, args, 0);
  atomic_store(&g_bb_stop, 1);
  if (pest) myth_join(pest, 0);
  for (i = 0; i < total; i++) HK_CHECK(atomic_load(&bb.got[i]) == 1, "cond:item-lost", "item %d consumed %d times", i, atomic_load(&bb.got[i]));
  HK_CHECK(bb.count == 0, "cond:item-lost", "buffer holds %d items at the end", bb.count);
  free((void *)bb.got); free(args);
  hk_sample("bounded buffer: cap %d, %d producers x %d items, %d consumers, signal-outside-mutex %d", bb.cap, bb.P, bb.per, bb.C, bb.outside);
  return total;
}

/* ---------------------------------------------------------------- turnstile */
static struct { hmx_t x; hcv_t cv[64]; int N, rounds; volatile long turn; volatile long passes; } ts;
static void * ts_thread(void * a_) {
  hkm_targ_t * a = (hkm_targ_t *)a_;
  hk_rng_t r; hk_rng_seed(&r, a->rseed, 3);
  int k;
  for (k = 0; k < ts.rounds; k++) {
    long my = (long)k * ts.N + a->idx;
    L(&ts.x);
    while (ts.turn != my) W(&ts.cv[a->idx], &ts.x);
    HK_CHECK(ts.passes == my, "cond:turnstile-order", "pass %ld happened at position %ld", my, ts.passes);
    ts.passes++;
    ts.turn = my + 1;
    S(&ts.cv[(a->idx + 1) % ts.N]);
    U(&ts.x);
    hkm_jitter(&r, 400);
  }
  return 0;
}
static long run_turnstile(hk_rng_t * r) {
  mx_init(&ts.x);
  ts.N = 2 + (int)hk_below(r, 30); ts.rounds = 5 + (int)hk_below(r, 60); ts.turn = 0; ts.passes = 0;
  int i;
  for (i = 0; i < ts.N; i++) cv_init(&ts.cv[i]);
  hkm_targ_t * args = (hkm_targ_t *)calloc((size_t)ts.N, sizeof(hkm_targ_t));
  for (i = 0; i < ts.N; i++) { args[i].idx = i; args[i].rseed = hk_rand(r); }
  hkm_run_threads(ts.N, ts_thread, args, 0);
  HK_CHECK(ts.passes == (long)ts.N * ts.rounds, "cond:turnstile-order", "passes %ld", ts.passes);
  free(args);
  hk_sample("turnstile: %d threads x %d rounds, one condition per thread, signal only", ts.N, ts.rounds);
  return ts.passes;
}

/* ---------------------------------------------------------------- gate (broadcast) */
static struct { hmx_t x; hcv_t gate, arrived; int N, rounds; volatile long round; volatile int registered; _Atomic long released[256]; } gt;
static void * gt_waiter(void * a_) {
  hkm_targ_t * a = (hkm_targ_t *)a_;
  hk_rng_t r; hk_rng_seed(&r, a->rseed, 4);
  int k;
  for (k = 0; k < gt.rounds; k++) {
    if (hk_below(&r, 3) == 0) myth_yield();
    L(&gt.x);
    long my_round = gt.round;
    HK_CHECK(my_round == k, "cond:gate-round", "waiter %d registers for round %ld in its iteration %d", a->idx, my_round, k);
    gt.registered++;
    if (gt.registered == gt.N) S(&gt.arrived);
    while (gt.round == my_round) W(&gt.gate, &gt.x);
    U(&gt.x);
    atomic_fetch_add(&gt.released[k], 1);
  }
  return 0;
}
static void * gt_master(void * a_) {
  (void)a_;
  int k;
  for (k = 0; k < gt.rounds; k++) {
    L(&gt.x);
    while (gt.registered < gt.N) W(&gt.arrived, &gt.x);
    /* all N are registered; every one of them is blocked in wait or about to be (holds no mutex) */
    long nw = gt.gate.nwaiting;
    HK_CHECK(nw == gt.N, "cond:gate-count", "round %d: %ld waiters inside wait, expected %d", k, nw, gt.N);
    gt.registered = 0;
    gt.round++;
    B(&gt.gate);
    U(&gt.x);
  }
  return 0;
}
static void * gt_thread(void * a_) { hkm_targ_t * a = (hkm_targ_t *)a_; return a->idx == 0 ? gt_master(a_) : gt_waiter(a_); }
static long run_gate(hk_rng_t * r) {
  mx_init(&gt.x); cv_init(&gt.gate); cv_init(&gt.arrived);
  gt.N = 1 + (int)hk_below(r, 40); gt.rounds = 3 + (int)hk_below(r, 40); if (gt.rounds > 250) gt.rounds = 250;
  gt.round = 0; gt.registered = 0;
  int i;
  for (i = 0; i < gt.rounds; i++) atomic_store(&gt.released[i], 0);
  hkm_targ_t * args = (hkm_targ_t *)calloc((size_t)gt.N + 1, sizeof(hkm_targ_t));
  for (i = 0; i <= gt.N; i++) { args[i].idx = i; args[i].rseed = hk_rand(r); }
  hkm_run_threads(gt.N + 1, gt_thread, args, 0);
  for (i = 0; i < gt.rounds; i++)
    HK_CHECK(atomic_load(&gt.released[i]) == gt.N, "cond:broadcast-missed-waiter", "round %d released %ld of %d waiters", i, atomic_load(&gt.released[i]), gt.N);
  free(args);
  hk_sample("gate: %d waiters x %d rounds released by broadcast", gt.N, gt.rounds);
  return (long)gt.N * gt.rounds;
}

/* ---------------------------------------------------------------- token release: signals issued after unlock, racing each other */
static struct { hmx_t x; hcv_t cv, done, parked; int W, S, rounds; volatile long tokens, returned, round; _Atomic int go; } tk;
static void * tk_waiter(void * a_) {
  hkm_targ_t * a = (hkm_targ_t *)a_;
  (void)a;
  L(&tk.x);
  for (;;) {
    /* park unconditionally: every return from this wait must have its own signal (or the final broadcast);
       a waiter that is woken takes at most one token, so a lost signal cannot be covered up by another waiter */
    if (tk.cv.nwaiting + 1 == tk.W) S(&tk.parked);
    W(&tk.cv, &tk.x);
    if (tk.round < 0) break;
    tk.returned++;
    if (tk.tokens > 0) tk.tokens--;
    S(&tk.done);
  }
  U(&tk.x);
  return 0;
}
static void * tk_signaler(void * a_) {
  hkm_targ_t * a = (hkm_targ_t *)a_;
  hk_rng_t r; hk_rng_seed(&r, a->rseed, 6);
  L(&tk.x);
  tk.tokens++;
  tk.cv.sigs++;
  U(&tk.x);
  /* line up with the other signalers so that the signals, issued after the unlock, hit the condition together */
  atomic_fetch_add(&tk.go, 1);
  long spins = 0;
  while (atomic_load(&tk.go) < tk.S && ++spins < 400000) { if ((spins & 63) == 0) myth_yield(); }
  if (hk_below(&r, 2)) hk_work((unsigned)hk_below(&r, 300));
  myth_cond_signal(&tk.cv.c);
  atomic_fetch_add(&g_signals, 1); atomic_fetch_add(&g_signal_outside, 1);
  return 0;
}
static long run_tokens(hk_rng_t * r) {
  mx_init(&tk.x); cv_init(&tk.cv); cv_init(&tk.done); cv_init(&tk.parked);
  tk.cv.loose = 1;
  tk.W = 2 + (int)hk_below(r, 12); tk.rounds = 20 + (int)hk_below(r, 200);
  tk.tokens = 0; tk.returned = 0; tk.round = 0;
  int i, k;
  hkm_targ_t * wa = (hkm_targ_t *)calloc((size_t)tk.W, sizeof(hkm_targ_t));
  myth_thread_t * wid = (myth_thread_t *)calloc((size_t)tk.W, sizeof(myth_thread_t));
  for (i = 0; i < tk.W; i++) { wa[i].idx = i; wid[i] = myth_create(tk_waiter, &wa[i]); }
  long released = 0;
  for (k = 0; k < tk.rounds; k++) {
    /* every waiter is inside wait (it holds no mutex there) */
    L(&tk.x);
    while (tk.cv.nwaiting < tk.W) W(&tk.parked, &tk.x);
    tk.returned = 0;
    tk.S = 1 + (int)hk_below(r, (uint64_t)(tk.W < 6 ? tk.W : 6));
    atomic_store(&tk.go, 0);
    U(&tk.x);
    hkm_targ_t sa[8];
    myth_thread_t sid[8];
    memset(sa, 0, sizeof(sa));
    for (i = 0; i < tk.S; i++) {
      /* parent-first: all signalers exist at once and are picked up by idle workers */
      myth_thread_attr_t at; myth_thread_attr_init(&at); at.child_first = 0;
      sa[i].idx = i; sa[i].rseed = hk_rand(r); myth_create_ex(&sid[i], &at, tk_signaler, &sa[i]);
    }
    for (i = 0; i < tk.S; i++) myth_join(sid[i], 0);
    /* S signals were issued, each after its token was published and with >= S threads blocked: S waiters must come back.
       the master blocks here, so a lost wake-up leaves every worker idle (logical deadlock) */
    L(&tk.x);
    while (tk.returned < tk.S) W(&tk.done, &tk.x);
    HK_CHECK(tk.returned == tk.S && tk.tokens == 0, "cond:signal-count", "round %d: %ld waiters resumed for %d signals, %ld tokens left", k, tk.returned, tk.S, tk.tokens);
    U(&tk.x);
    released += tk.S;
  }
  L(&tk.x); tk.round = -1; B(&tk.cv); U(&tk.x);
  for (i = 0; i < tk.W; i++) myth_join(wid[i], 0);
  free(wa); free(wid);
  hk_sample("token release: %d waiters, %d rounds of 1-6 signalers each doing lock; publish; unlock; signal at the same moment", tk.W, tk.rounds);
  return released;
}

/* ---------------------------------------------------------------- ping-pong */
static struct { hmx_t x; hcv_t cv; volatile int whose; int rounds; volatile long count; } pp;
static void * pp_thread(void * a_) {
  hkm_targ_t * a = (hkm_targ_t *)a_;
  hk_rng_t r; hk_rng_seed(&r, a->rseed, 5);
  int k;
  for (k = 0; k < pp.rounds; k++) {
    L(&pp.x);
    while (pp.whose != a->idx) W(&pp.cv, &pp.x);
    pp.count++;
    pp.whose = 1 - a->idx;
    S(&pp.cv);
    U(&pp.x);
    hkm_jitter(&r, 300);
  }
  return 0;
}
static long run_pingpong(hk_rng_t * r) {
  mx_init(&pp.x); cv_init(&pp.cv);
  pp.whose = 0; pp.rounds = 100 + (int)hk_below(r, 1500); pp.count = 0;
  hkm_targ_t args[2];
  memset(args, 0, sizeof(args));
  args[0].idx = 0; args[1].idx = 1; args[0].rseed = hk_rand(r); args[1].rseed = hk_rand(r);
  hkm_run_threads(2, pp_thread, args, 0);
  HK_CHECK(pp.count == 2L * pp.rounds, "cond:pingpong-count", "count %ld", pp.count);
  hk_sample("ping-pong: 2 threads x %d hand-offs over one condition", pp.rounds);
  return pp.count;
}

int main(int argc, char ** argv) {
  hk_init(argc, argv);
  uint64_t seed = hk_seed();
  int progs = (int)hk_arg("progs", 6);
  int pattern = (int)hk_arg("pattern", 0);
  hkm_setup();
  hk_watch_start("cond:no-progress", 120);   /* bystander threads keep the logical deadlock rule from firing */
  long handoffs = 0;
  int p, cnt[6] = { 0, 0, 0, 0, 0, 0 };
  for (p = 0; p < progs; p++) {
    hk_rng_t r; hk_rng_seed(&r, seed, (uint64_t)p);
    int pt = pattern ? pattern : 1 + (int)hk_below(&r, 5);
    cnt[pt]++;
    switch (pt) {
    case 5: handoffs += run_tokens(&r); break;
    case 1: handoffs += run_bb(&r); break;
    case 2: handoffs += run_turnstile(&r); break;
    case 3: handoffs += run_gate(&r); break;
    default: handoffs += run_pingpong(&r); break;
    }
  }
  hk_report("programs", progs);
  hk_report("bounded_buffer_programs", cnt[1]);
  hk_report("turnstile_programs", cnt[2]);
  hk_report("gate_programs", cnt[3]);
  hk_report("pingpong_programs", cnt[4]);
  hk_report("token_release_programs", cnt[5]);
  hk_report("handoffs", handoffs);
  hk_report("waits_returned", atomic_load(&g_waits));
  hk_report("signals", atomic_load(&g_signals));
  hk_report("broadcasts", atomic_load(&g_broadcasts));
  hk_report("signals_issued_after_unlock", atomic_load(&g_signal_outside));
  hk_report("signals_without_mutex_and_without_state_change", atomic_load(&g_signal_spurious));
  hk_report("signals_with_no_waiter", atomic_load(&g_sig_nowaiter));
  hk_report("waits_resumed_on_other_worker", atomic_load(&g_waits_resumed_elsewhere));
  hk_report("workers", myth_get_num_workers());
  return hk_finish();
}
