/*
 * h_once --- C14: myth_once runs the initialiser exactly once and everyone
 * waits for it; the initialiser may yield, block on a mutex or create threads.
 * args: seed= progs= nw=
 */
#ifndef _GNU_SOURCE
#define _GNU_SOURCE
#endif
#include "hkm.h"

#define NCTL 64
typedef struct {
  myth_once_t once;
  _Atomic int ran;
  _Atomic int done;
  int kind;             /* what the init routine does */
  myth_mutex_t m;
  _Atomic int holder_release;
} ctl_t;

static ctl_t g_ctl[NCTL];
static int g_nctl;
static _Atomic long g_calls, g_late_calls, g_inits;
static __thread int tls_unused;

static void * tiny(void * a) { (void)a; hk_work(50); return 0; }

static void init_body(ctl_t * c) {
  int prev = atomic_fetch_add(&c->ran, 1);
  HK_CHECK(prev == 0, "once:ran-twice", "init routine of control %d executed %d times", (int)(c - g_ctl), prev + 1);
  switch (c->kind) {
  case 0: break;
  case 1: { int i; for (i = 0; i < 5; i++) myth_yield(); break; }
  case 2: myth_mutex_lock(&c->m); myth_mutex_unlock(&c->m); break;   /* blocks until the holder releases */
  case 3: { myth_thread_t t[4]; int i; for (i = 0; i < 4; i++) t[i] = myth_create(tiny, 0); for (i = 0; i < 4; i++) myth_join(t[i], 0); break; }
  default: hk_work(3000); break;
  }
  atomic_store(&c->done, 1);
  atomic_fetch_add(&g_inits, 1);
}
/* one trampoline per control (myth_once takes void(*)(void)) */
#define T(i) static void init_##i(void) { init_body(&g_ctl[i]); }
T(0) T(1) T(2) T(3) T(4) T(5) T(6) T(7) T(8) T(9) T(10) T(11) T(12) T(13) T(14) T(15)
T(16) T(17) T(18) T(19) T(20) T(21) T(22) T(23) T(24) T(25) T(26) T(27) T(28) T(29) T(30) T(31)
T(32) T(33) T(34) T(35) T(36) T(37) T(38) T(39) T(40) T(41) T(42) T(43) T(44) T(45) T(46) T(47)
T(48) T(49) T(50) T(51) T(52) T(53) T(54) T(55) T(56) T(57) T(58) T(59) T(60) T(61) T(62) T(63)
#define R(i) init_##i,
static void (* const g_tramp[NCTL])(void) = {
  R(0) R(1) R(2) R(3) R(4) R(5) R(6) R(7) R(8) R(9) R(10) R(11) R(12) R(13) R(14) R(15)
  R(16) R(17) R(18) R(19) R(20) R(21) R(22) R(23) R(24) R(25) R(26) R(27) R(28) R(29) R(30) R(31)
  R(32) R(33) R(34) R(35) R(36) R(37) R(38) R(39) R(40) R(41) R(42) R(43) R(44) R(45) R(46) R(47)
  R(48) R(49) R(50) R(51) R(52) R(53) R(54) R(55) R(56) R(57) R(58) R(59) R(60) R(61) R(62) R(63)
};

static void call_once(int i, int late) {
  ctl_t * c = &g_ctl[i];
  if (late) myth_verif_nb_begin("myth_once on a completed control");
  int rc = myth_once(&c->once, g_tramp[i]);
  if (late) { myth_verif_nb_end(); atomic_fetch_add(&g_late_calls, 1); }
  HK_CHECK(rc == 0, "once:rc", "myth_once returned %d", rc);
  HK_CHECK(atomic_load(&c->done) == 1, "once:returned-before-init-completed",
           "myth_once on control %d returned while the init routine had %s", i, atomic_load(&c->ran) ? "not finished" : "not even started");
  HK_CHECK(atomic_load(&c->ran) == 1, "once:ran-twice", "control %d: init ran %d times", i, atomic_load(&c->ran));
  atomic_fetch_add(&g_calls, 1);
  hk_progress();
}

static void * caller(void * a_) {
  hkm_targ_t * a = (hkm_targ_t *)a_;
  hk_rng_t r; hk_rng_seed(&r, a->rseed, 51);
  int k, n = 1 + (int)hk_below(&r, (uint64_t)g_nctl);
  for (k = 0; k < n; k++) {
    int i = (int)hk_below(&r, (uint64_t)g_nctl);
    if (hk_below(&r, 4) == 0) myth_yield();
    call_once(i, 0);
  }
  (void)tls_unused;
  return 0;
}
/* holds the mutexes the blocking initialisers need, releases them after a while */
static void * holder(void * a_) {
  (void)a_;
  int i;
  for (i = 0; i < 30; i++) myth_yield();
  for (i = 0; i < g_nctl; i++) if (g_ctl[i].kind == 2) myth_mutex_unlock(&g_ctl[i].m);
  return 0;
}

int main(int argc, char ** argv) {
  hk_init(argc, argv);
  uint64_t seed = hk_seed();
  int progs = (int)hk_arg("progs", 8);
  hkm_setup();
  hk_watch_start("once:caller-never-returns", 120);
  int p;
  for (p = 0; p < progs; p++) {
    hk_rng_t r; hk_rng_seed(&r, seed, (uint64_t)p);
    g_nctl = 1 + (int)hk_below(&r, NCTL);
    static const int ts[] = { 2, 3, 8, 30, 100, 500 };
    int nt = ts[hk_below(&r, 6)], i;
    for (i = 0; i < g_nctl; i++) {
      memset(&g_ctl[i].once, 0, sizeof(myth_once_t));   /* = MYTH_ONCE_INIT */
      atomic_store(&g_ctl[i].ran, 0); atomic_store(&g_ctl[i].done, 0);
      g_ctl[i].kind = (int)hk_below(&r, 5);
      myth_mutex_init(&g_ctl[i].m, 0);
    }
    /* the main thread takes the mutexes of the blocking initialisers; the holder thread (same
       user-level mutex, unlock by another thread is allowed for a default mutex) releases them */
    for (i = 0; i < g_nctl; i++) if (g_ctl[i].kind == 2) myth_mutex_lock(&g_ctl[i].m);
    hkm_targ_t * args = (hkm_targ_t *)calloc((size_t)nt + 1, sizeof(hkm_targ_t));
    for (i = 0; i < nt; i++) { args[i].idx = i; args[i].rseed = hk_rand(&r); }
    myth_thread_t h = myth_create(holder, 0);
    hkm_run_threads(nt, caller, args, 0);
    myth_join(h, 0);
    /* later calls: return immediately, never run the routine */
    for (i = 0; i < g_nctl; i++) {
      if (atomic_load(&g_ctl[i].ran)) call_once(i, 1);
      else call_once(i, 0);
      call_once(i, 1);
    }
    for (i = 0; i < g_nctl; i++) myth_mutex_destroy(&g_ctl[i].m);
    free(args);
    if (p < 3) hk_sample("%d once-controls (init kinds: nop/yield/block-on-mutex/create+join/work), %d concurrent callers", g_nctl, nt);
  }
  hk_report("programs", progs);
  hk_report("once_calls", atomic_load(&g_calls));
  hk_report("late_calls_nonblocking", atomic_load(&g_late_calls));
  hk_report("init_routines_run", atomic_load(&g_inits));
  hk_report("workers", myth_get_num_workers());
  return hk_finish();
}
