/*
 * dagcheck --- C19: validates a .dag file written by the DAG Recorder (dr_dump or
 * dag2any).  The structural part is written independently of the library: it parses
 * the file itself (struct layout from the public headers only) and checks
 *   - file size = header + n*node + m*edge + string table
 *   - every child / subgraph offset and every edge endpoint inside [0,n)
 *   - subgraph ranges and create-children form a tree rooted at node 0 reaching every node
 *   - edges sorted by source; edges_begin/edges_end delimit exactly the edges of each node
 *   - string indices in range, strings NUL-terminated inside the table
 * Then it lets the library's own chronological replay run over the file with a counting
 * callback (every leaf starts and ends exactly once; nothing running or ready at the
 * end), and performs the round trip read -> write -> byte compare.
 * usage: dagcheck file=<A.dag> [rt_prefix=<prefix for the re-written copy>]
 */
#ifndef _GNU_SOURCE
#define _GNU_SOURCE
#endif
#define DAG_RECORDER 2
#include <dag_recorder_impl.h>
#include <sys/stat.h>
#include "hk.h"

typedef struct dr_pi_dag_node node_t;
typedef dr_pi_dag_edge edge_t;

static unsigned char * slurp(const char * path, long * sz) {
  FILE * f = fopen(path, "rb");
  HK_CHECK(f != 0, "dag:cannot-open", "cannot open %s", path);
  fseek(f, 0, SEEK_END); *sz = ftell(f); fseek(f, 0, SEEK_SET);
  unsigned char * b = (unsigned char *)malloc((size_t)*sz + 1);
  HK_CHECK(fread(b, 1, (size_t)*sz, f) == (size_t)*sz, "dag:cannot-open", "short read on %s", path);
  fclose(f);
  return b;
}

/* ---- replay through the library with a counting callback ---- */
typedef struct {
  void (*process_event)(chronological_traverser * ct, dr_event evt);
  dr_pi_dag * G;
  int * starts, * ends;
  long running, ready, max_running, events, neg;
  dr_clock_t last_t;
  long out_of_order;
} counter_t;
static void on_event(chronological_traverser * ct_, dr_event e) {
  counter_t * c = (counter_t *)ct_;
  long idx = e.u - c->G->T;
  HK_CHECK(idx >= 0 && idx < c->G->n, "dag:replay-node-out-of-range", "replay event for node %ld of %ld", idx, c->G->n);
  if (e.t < c->last_t) c->out_of_order++;
  c->last_t = e.t;
  c->events++;
  switch (e.kind) {
  case dr_event_kind_ready: c->ready++; break;
  case dr_event_kind_start: c->starts[idx]++; c->running++; if (c->running > c->max_running) c->max_running = c->running; break;
  case dr_event_kind_last_start: c->ready--; break;
  case dr_event_kind_end: c->ends[idx]++; c->running--; break;
  }
  if (c->running < 0 || c->ready < 0) c->neg++;
}

int main(int argc, char ** argv) {
  hk_init(argc, argv);
  const char * file = hk_arg_s("file", 0);
  const char * rt_prefix = hk_arg_s("rt_prefix", 0);
  HK_CHECK(file != 0, "dag:usage", "file= missing");
  long sz = 0;
  unsigned char * b = slurp(file, &sz);
  const long hdr = DAG_RECORDER_HEADER_LEN + 4 * (long)sizeof(long);
  HK_CHECK(sz >= hdr, "dag:truncated", "file has %ld bytes, header needs %ld", sz, hdr);
  HK_CHECK(memcmp(b, DAG_RECORDER_HEADER, DAG_RECORDER_HEADER_LEN) == 0, "dag:bad-header", "format header mismatch");
  long n, m, start_clock, nw;
  memcpy(&n, b + DAG_RECORDER_HEADER_LEN, sizeof(long));
  memcpy(&m, b + DAG_RECORDER_HEADER_LEN + 8, sizeof(long));
  memcpy(&start_clock, b + DAG_RECORDER_HEADER_LEN + 16, sizeof(long));
  memcpy(&nw, b + DAG_RECORDER_HEADER_LEN + 24, sizeof(long));
  HK_CHECK(n >= 1 && m >= 0 && nw >= 1, "dag:bad-counts", "n=%ld m=%ld workers=%ld", n, m, nw);
  long off_T = hdr, off_E = off_T + n * (long)sizeof(node_t), off_S = off_E + m * (long)sizeof(edge_t);
  HK_CHECK(off_S + (long)sizeof(dr_pi_string_table) <= sz, "dag:truncated", "file has %ld bytes, %ld nodes and %ld edges need %ld", sz, n, m, off_S);
  node_t * T = (node_t *)malloc((size_t)n * sizeof(node_t));
  edge_t * E = (edge_t *)malloc((size_t)(m ? m : 1) * sizeof(edge_t));
  memcpy(T, b + off_T, (size_t)n * sizeof(node_t));
  memcpy(E, b + off_E, (size_t)m * sizeof(edge_t));
  dr_pi_string_table S;
  memcpy(&S, b + off_S, sizeof(S));
  HK_CHECK(off_S + S.sz == sz, "dag:size-mismatch", "file size %ld != header %ld + %ld nodes + %ld edges + string table %ld", sz, hdr, n, m, S.sz);
  HK_CHECK(S.n >= 0 && (long)sizeof(S) + S.n * 8 <= S.sz, "dag:string-table", "string table: n=%ld sz=%ld", S.n, S.sz);
  /* ---- strings ---- */
  long * I = (long *)malloc((size_t)(S.n ? S.n : 1) * sizeof(long));
  memcpy(I, b + off_S + sizeof(S), (size_t)S.n * sizeof(long));
  long chars_off = off_S + (long)sizeof(S) + S.n * 8, chars_len = sz - chars_off, j;
  for (j = 0; j < S.n; j++) {
    HK_CHECK(I[j] >= 0 && I[j] < chars_len, "dag:string-index-out-of-range", "string %ld starts at %ld of %ld", j, I[j], chars_len);
    HK_CHECK(memchr(b + chars_off + I[j], 0, (size_t)(chars_len - I[j])) != 0, "dag:string-not-terminated", "string %ld is not NUL-terminated inside the table", j);
  }
  /* ---- nodes: offsets, tree ---- */
  int * claimed = (int *)calloc((size_t)n, sizeof(int));
  long leaves = 0, collapsed = 0, i;
  for (i = 0; i < n; i++) {
    node_t * t = &T[i];
    int k = (int)t->info.kind;
    HK_CHECK(k >= 0 && k <= dr_dag_node_kind_task, "dag:bad-node-kind", "node %ld has kind %d", i, k);
    HK_CHECK(t->info.start.pos.file_idx >= 0 && t->info.start.pos.file_idx < S.n && t->info.end.pos.file_idx >= 0 && t->info.end.pos.file_idx < S.n,
             "dag:string-index-out-of-range", "node %ld refers to file strings %ld / %ld of %ld", i, t->info.start.pos.file_idx, t->info.end.pos.file_idx, S.n);
    if (k == dr_dag_node_kind_create_task) {
      long c = i + t->child_offset;
      HK_CHECK(c >= 0 && c < n && c != i, "dag:child-offset-out-of-range", "create node %ld: child offset %ld -> %ld outside [0,%ld)", i, t->child_offset, c, n);
      HK_CHECK(T[c].info.kind == dr_dag_node_kind_task, "dag:child-not-a-task", "create node %ld points to node %ld of kind %d", i, c, (int)T[c].info.kind);
      claimed[c]++;
      leaves++;
    } else if (k >= dr_dag_node_kind_section) {
      long s0 = i + t->subgraphs_begin_offset, s1 = i + t->subgraphs_end_offset, x;
      HK_CHECK(t->subgraphs_begin_offset <= t->subgraphs_end_offset, "dag:subgraph-range", "node %ld: subgraph range [%ld,%ld)", i, s0, s1);
      if (s0 == s1) { leaves++; collapsed++; }
      else {
        HK_CHECK(s0 > i && s1 <= n, "dag:subgraph-offset-out-of-range", "node %ld: subgraphs [%ld,%ld) outside (%ld,%ld]", i, s0, s1, i, n);
        for (x = s0; x < s1; x++) claimed[x]++;
      }
    } else leaves++;
  }
  HK_CHECK(claimed[0] == 0 && T[0].info.kind == dr_dag_node_kind_task, "dag:root", "node 0 is not an unclaimed task");
  for (i = 1; i < n; i++)
    HK_CHECK(claimed[i] == 1, claimed[i] == 0 ? "dag:unreachable-node" : "dag:overlapping-subgraphs", "node %ld is claimed by %d parents", i, claimed[i]);
  /* ---- edges ---- */
  for (j = 0; j < m; j++) {
    HK_CHECK((int)E[j].kind >= 0 && (int)E[j].kind < dr_dag_edge_kind_max, "dag:bad-edge-kind", "edge %ld has kind %d", j, (int)E[j].kind);
    HK_CHECK(E[j].u >= 0 && E[j].u < n && E[j].v >= 0 && E[j].v < n, "dag:edge-endpoint-out-of-range", "edge %ld: %ld -> %ld with %ld nodes", j, E[j].u, E[j].v, n);
    if (j) HK_CHECK(E[j - 1].u <= E[j].u, "dag:edges-not-grouped-by-source", "edge %ld has source %ld after source %ld", j, E[j].u, E[j - 1].u);
  }
  long covered = 0;
  for (i = 0; i < n; i++) {
    long eb = T[i].edges_begin, ee = T[i].edges_end;
    HK_CHECK(eb >= 0 && eb <= ee && ee <= m, "dag:edge-range", "node %ld: edge range [%ld,%ld) of %ld", i, eb, ee, m);
    for (j = eb; j < ee; j++) HK_CHECK(E[j].u == i, "dag:edge-range", "node %ld: edge %ld in its range has source %ld", i, j, E[j].u);
    if (eb > 0 && eb < ee) HK_CHECK(E[eb - 1].u != i, "dag:edge-range", "node %ld: an edge before its range has the same source", i);
    if (ee < m && eb < ee) HK_CHECK(E[ee].u != i, "dag:edge-range", "node %ld: an edge after its range has the same source", i);
    covered += ee - eb;
  }
  HK_CHECK(covered == m, "dag:edge-range", "edge ranges cover %ld of %ld edges", covered, m);
  /* ---- totals: materialised edges + the counts kept inside collapsed nodes, as the report does ---- */
  long ek[dr_dag_edge_kind_max] = { 0 };
  for (j = 0; j < m; j++) ek[E[j].kind]++;
  for (i = 0; i < n; i++)
    if (T[i].info.kind >= dr_dag_node_kind_section && T[i].subgraphs_begin_offset == T[i].subgraphs_end_offset) {
      int k;
      for (k = 0; k < dr_dag_edge_kind_max; k++) ek[k] += T[i].info.logical_edge_counts[k];
    }
  /* ---- replay by the library ---- */
  dr_opts_init(0);
  dr_pi_dag * G = dr_read_dag(file);
  HK_CHECK(G != 0, "dag:reader-rejected-file", "dr_read_dag failed on %s", file);
  HK_CHECK(G->n == n && G->m == m, "dag:reader-disagrees", "reader sees %ld nodes / %ld edges, file has %ld / %ld", G->n, G->m, n, m);
  counter_t ct; memset(&ct, 0, sizeof(ct));
  ct.process_event = on_event; ct.G = G;
  ct.starts = (int *)calloc((size_t)n, sizeof(int)); ct.ends = (int *)calloc((size_t)n, sizeof(int));
  hk_crumb("chronological-replay");
  dr_pi_dag_chronological_traverse(G, (chronological_traverser *)&ct);
  hk_crumb(0);
  long started = 0;
  for (i = 0; i < n; i++) {
    int leaf = T[i].info.kind < dr_dag_node_kind_section || T[i].subgraphs_begin_offset == T[i].subgraphs_end_offset;
    if (leaf) {
      HK_CHECK(ct.starts[i] == 1 && ct.ends[i] == 1, "dag:replay-leaf-not-once", "leaf %ld (kind %d) was started %d and ended %d times by the replay", i, (int)T[i].info.kind, ct.starts[i], ct.ends[i]);
      started++;
    } else HK_CHECK(ct.starts[i] == 0 && ct.ends[i] == 0, "dag:replay-inner-node", "inner node %ld was started %d / ended %d times", i, ct.starts[i], ct.ends[i]);
  }
  HK_CHECK(ct.running == 0 && ct.ready == 0, "dag:replay-leftover", "replay finished with %ld running and %ld ready", ct.running, ct.ready);
  HK_CHECK(ct.neg == 0, "dag:replay-negative", "running or ready went negative %ld times", ct.neg);
  /* ---- round trip ---- */
  long rt_ok = 0;
  if (rt_prefix) {
    setenv("DR_PREFIX", rt_prefix, 1);
    setenv("DR_DAG", "1", 1);
    dr_opts_init(0);
    HK_CHECK(dr_gen_pi_dag(G) == 1, "dag:roundtrip-write-failed", "dr_gen_pi_dag failed");
    char path[512]; snprintf(path, sizeof(path), "%s.dag", rt_prefix);
    long sz2 = 0;
    unsigned char * b2 = slurp(path, &sz2);
    HK_CHECK(sz2 == sz, "dag:roundtrip-differs", "re-written file has %ld bytes, original %ld", sz2, sz);
    /* the two pointer fields of the string-table header (I, C) are the only bytes excluded */
    long p0 = off_S + 16, p1 = off_S + 32, q;
    for (q = 0; q < sz; q++) {
      if (q >= p0 && q < p1) continue;
      if (b[q] != b2[q]) {
        const char * where = q < off_T ? "header" : q < off_E ? "node array" : q < off_S ? "edge array" : "string table";
        HK_FAIL("dag:roundtrip-differs", "byte %ld (%s; node %ld) differs after read -> write: 0x%02x vs 0x%02x", q, where, q >= off_T && q < off_E ? (q - off_T) / (long)sizeof(node_t) : -1, b[q], b2[q]);
      }
    }
    rt_ok = 1;
    remove(path);
  }
  hk_sample("%s: %ld nodes (%ld leaves, %ld collapsed), %ld edges, %ld strings, replay: %ld events, %ld leaves started/ended once, max %ld running", file, n, leaves, collapsed, m, S.n, ct.events, started, ct.max_running);
  hk_report("nodes", n); hk_report("edges", m); hk_report("strings", S.n); hk_report("leaves", leaves); hk_report("collapsed", collapsed);
  hk_report("replay_events", ct.events); hk_report("replay_max_running", ct.max_running); hk_report("replay_out_of_order", ct.out_of_order);
  hk_report("roundtrip_identical", rt_ok);
  hk_report("T1", (long long)T[0].info.t_1); hk_report("Tinf", (long long)T[0].info.t_inf);
  hk_report("creates", T[0].info.logical_node_counts[dr_dag_node_kind_create_task]);
  hk_report("waits", T[0].info.logical_node_counts[dr_dag_node_kind_wait_tasks]);
  hk_report("ends", T[0].info.logical_node_counts[dr_dag_node_kind_end_task]);
  hk_report("others", T[0].info.logical_node_counts[dr_dag_node_kind_other]);
  hk_report("edges_end", ek[dr_dag_edge_kind_end]); hk_report("edges_create", ek[dr_dag_edge_kind_create]);
  hk_report("edges_create_cont", ek[dr_dag_edge_kind_create_cont]); hk_report("edges_wait_cont", ek[dr_dag_edge_kind_wait_cont]);
  hk_report("edges_other_cont", ek[dr_dag_edge_kind_other_cont]);
  hk_report("workers", nw);
  return hk_finish();
}
