/*
 * h_forkjoin --- C01 (also used by C02's library-level part):
 * seeded random spawn trees; every creation gets a unique tag.
 * Oracle: each start routine runs exactly once with its own argument; join
 * returns only after the routine returned / exited, delivers exactly its value
 * and every byte the child wrote.
 *
 * args: seed=<n> progs=<n> maxth=<n> depth=<n> fan=<n> minstack=<bytes>
 *       nw=<workers> yields=<0|1> (threads also yield with all options: C02)
 */
#ifndef _GNU_SOURCE
#define _GNU_SOURCE
#endif
#include <stdio.h>
#include <stdlib.h>
#include <string.h>
#include <stdint.h>
#include <stdatomic.h>
#include <myth/myth.h>
#include "hk.h"

#define MAGIC 0x5a17c0deULL

enum { MODE_DEFAULT, MODE_CREATE_EX, MODE_ATTR_STACK, MODE_ATTR_PF, MODE_ATTR_CF, MODE_NULL_ID, MODE_ATTR_HEAP, N_MODES };
enum { ORD_FWD, ORD_REV, ORD_RANDOM, ORD_DELEGATE, N_ORD };
enum { END_RETURN, END_EXIT0, END_EXIT1, END_EXIT3, N_END };

typedef struct node {
  uint64_t magic;
  int tag;
  int depth;
  uint64_t rseed;
  _Atomic int runs;
  _Atomic uint64_t ret_stamp;
  _Atomic uint64_t start_stamp;
  myth_thread_t id;
  _Atomic(myth_thread_t) self_id;
  int mode, end_kind, pre_yields;
  unsigned char * blk;
  size_t blk_sz;
  struct node * delegate;       /* a sibling this node must join before it returns */
  int delegate_joined;
  _Atomic int join_issued;
  int first_worker;
  size_t stack_size;
} node_t;

static node_t * g_nodes;
static _Atomic int g_n_nodes;
static int g_max_nodes;
static int g_max_depth, g_max_fan, g_do_yields;
static size_t g_min_stack;
static _Atomic long g_joins, g_creates, g_mode_cnt[N_MODES], g_end_cnt[N_END], g_ord_cnt[N_ORD];
static _Atomic long g_migrated_parent, g_blk_bytes;

static inline void * value_of(int tag) { return (void *)(uintptr_t)(hk_mix((uint64_t)tag * 77 + 5) | 1); }
static inline unsigned char pat(int tag, size_t i) { return (unsigned char)(hk_mix((uint64_t)tag) >> ((i & 7) * 8)) ^ (unsigned char)(i * 131); }

static node_t * new_node(int depth, uint64_t rseed) {
  int i = atomic_fetch_add(&g_n_nodes, 1);
  if (i >= g_max_nodes) { atomic_fetch_sub(&g_n_nodes, 1); return 0; }
  node_t * n = &g_nodes[i];
  memset(n, 0, sizeof(*n));
  n->magic = MAGIC ^ (uint64_t)i;
  n->tag = i;
  n->depth = depth;
  n->rseed = rseed;
  return n;
}

static void join_node(node_t * c);
static void * node_main(void * arg);

static __attribute__((noinline)) void exit_nested(int levels, void * v) {
  volatile char pad[64];
  pad[0] = (char)levels;
  if (levels <= 0) myth_exit(v);
  exit_nested(levels - 1, v);
  pad[1] = 0;
}

/* paint the region an attribute object will live in */
static __attribute__((noinline)) void paint_stack(unsigned char b) {
  volatile unsigned char junk[2048];
  size_t i;
  for (i = 0; i < sizeof(junk); i++) junk[i] = b;
}

static __attribute__((noinline)) int create_child(node_t * c, hk_rng_t * r) {
  int rc = -1;
  myth_thread_t id = 0;
  atomic_fetch_add(&g_creates, 1);
  atomic_fetch_add(&g_mode_cnt[c->mode], 1);
  switch (c->mode) {
  case MODE_DEFAULT:
    id = myth_create(node_main, c);
    rc = id ? 0 : -1;
    break;
  case MODE_CREATE_EX:
    rc = myth_create_ex(&id, 0, node_main, c);
    break;
  case MODE_NULL_ID:
    hk_crumb("create_ex:id==NULL");
    rc = myth_create_ex(0, 0, node_main, c);
    hk_crumb(0);
    break;
  case MODE_ATTR_STACK:
  case MODE_ATTR_PF:
  case MODE_ATTR_CF: {
    static const unsigned char paints[3] = { 0xff, 0xa5, 0x01 };
    paint_stack(paints[hk_below(r, 3)]);
    myth_thread_attr_t attr;
    myth_thread_attr_init(&attr);
    if (c->mode == MODE_ATTR_STACK) {
      static const size_t szs[] = { 1, 2, 3, 4, 5, 8, 16, 33 };
      size_t s = g_min_stack + 4096 * szs[hk_below(r, 8)];
      if (hk_below(r, 4) == 0) s += 100; /* not a multiple of the page size */
      myth_thread_attr_setstacksize(&attr, s);
      c->stack_size = s;
      if (hk_below(r, 2)) attr.child_first = 0;
    } else if (c->mode == MODE_ATTR_PF) {
      attr.child_first = 0;
    } else {
      attr.child_first = 1;
    }
    hk_crumb("create_ex:attr-on-painted-stack");
    rc = myth_create_ex(&id, &attr, node_main, c);
    hk_crumb(0);
    break;
  }
  case MODE_ATTR_HEAP: {
    myth_thread_attr_t * attr = malloc(sizeof(*attr));
    memset(attr, 0xee, sizeof(*attr));
    myth_thread_attr_init(attr);
    hk_crumb("create_ex:attr-on-painted-heap");
    rc = myth_create_ex(&id, attr, node_main, c);
    hk_crumb(0);
    free(attr);
    break;
  }
  }
  HK_CHECK(rc == 0, "create:failed", "creation of tag %d (mode %d) returned %d", c->tag, c->mode, rc);
  if (c->mode == MODE_NULL_ID) {
    /* the child publishes myth_self(); it is runnable, so yielding lets it run */
    long spins = 0;
    while (!(id = atomic_load(&c->self_id))) {
      myth_yield();
      if (++spins > 200000000L) HK_FAIL("create_ex:id==NULL:never-ran", "tag %d created with NULL id never started", c->tag);
    }
  }
  c->id = id;
  return 0;
}

static void join_node(node_t * c) {
  void * res = (void *)0x1;
  atomic_store(&c->join_issued, 1);
  int rc = myth_join(c->id, &res);
  uint64_t jret = myth_verif_stamp();
  atomic_fetch_add(&g_joins, 1);
  HK_CHECK(rc == 0, "join:rc", "join of tag %d returned %d", c->tag, rc);
  int runs = atomic_load(&c->runs);
  HK_CHECK(runs == 1, runs == 0 ? "run-count:zero-at-join" : "run-count:multiple",
           "tag %d ran %d times when its join returned", c->tag, runs);
  uint64_t rs = atomic_load(&c->ret_stamp);
  HK_CHECK(rs != 0 && rs < jret, "join:returned-early",
           "join of tag %d returned (stamp %llu) before its function finished (stamp %llu)",
           c->tag, (unsigned long long)jret, (unsigned long long)rs);
  HK_CHECK(res == value_of(c->tag), "join:wrong-value",
           "join of tag %d (end kind %d) delivered %p, expected %p", c->tag, c->end_kind, res, value_of(c->tag));
  size_t i;
  for (i = 0; i < c->blk_sz; i++) {
    if (c->blk[i] != pat(c->tag, i)) {
      HK_FAIL("join:memory-not-visible", "byte %zu of the block written by tag %d is 0x%02x, expected 0x%02x",
              i, c->tag, c->blk[i], pat(c->tag, i));
    }
  }
  free(c->blk);
  c->blk = 0;
}

static void * node_main(void * arg) {
  node_t * n = (node_t *)arg;
  HK_CHECK(n && n->magic == (MAGIC ^ (uint64_t)n->tag) && n == &g_nodes[n->tag],
           "arg:wrong", "start routine received argument %p that is not its node", arg);
  int prev = atomic_fetch_add(&n->runs, 1);
  HK_CHECK(prev == 0, "run-count:multiple", "tag %d started %d times", n->tag, prev + 1);
  atomic_store(&n->start_stamp, myth_verif_stamp());
  atomic_store(&n->self_id, myth_self());
  n->first_worker = myth_get_worker_num();
  hk_rng_t r;
  hk_rng_seed(&r, n->rseed, 0x1234);
  int y;
  for (y = 0; y < n->pre_yields; y++) {
    if (g_do_yields) myth_yield_ex((int)hk_below(&r, 5)); else myth_yield();
  }
  /* children */
  int nkids = 0;
  node_t * kids[8];
  if (n->depth < g_max_depth) {
    int want = (int)hk_below(&r, (uint64_t)g_max_fan + 1);
    if (n->depth == 0 && want == 0) want = 1;
    int order = (int)hk_below(&r, N_ORD);
    atomic_fetch_add(&g_ord_cnt[order], 1);
    int k;
    for (k = 0; k < want; k++) {
      node_t * c = new_node(n->depth + 1, hk_rand(&r));
      if (!c) break;
      c->mode = (int)hk_below(&r, N_MODES);
      c->end_kind = (int)hk_below(&r, N_END);
      c->pre_yields = (int)hk_below(&r, 4);
      if (hk_below(&r, 3) == 0) c->pre_yields = 0;
      c->blk_sz = 64 + (size_t)hk_below(&r, 4032);
      c->blk = malloc(c->blk_sz);
      memset(c->blk, 0, c->blk_sz);
      atomic_fetch_add(&g_blk_bytes, (long)c->blk_sz);
      if (order == ORD_DELEGATE && nkids > 0 && !kids[nkids - 1]->delegate_joined) {
        /* the new child joins its elder sibling */
        c->delegate = kids[nkids - 1];
        kids[nkids - 1]->delegate_joined = 1;
      }
      kids[nkids++] = c;
      int w0 = myth_get_worker_num();
      create_child(c, &r);
      if (myth_get_worker_num() != w0) atomic_fetch_add(&g_migrated_parent, 1);
      if (hk_below(&r, 4) == 0) hk_work((unsigned)hk_below(&r, 2000));
    }
    /* join */
    int idx[8];
    for (k = 0; k < nkids; k++) idx[k] = k;
    if (order == ORD_REV || order == ORD_DELEGATE) {
      for (k = 0; k < nkids / 2; k++) { int t = idx[k]; idx[k] = idx[nkids - 1 - k]; idx[nkids - 1 - k] = t; }
    } else if (order == ORD_RANDOM) {
      for (k = nkids - 1; k > 0; k--) { int j = (int)hk_below(&r, (uint64_t)k + 1); int t = idx[k]; idx[k] = idx[j]; idx[j] = t; }
    }
    for (k = 0; k < nkids; k++) {
      node_t * c = kids[idx[k]];
      if (c->delegate_joined) continue;   /* a sibling joins it */
      if (hk_below(&r, 3) == 0) myth_yield();
      join_node(c);
    }
  }
  if (n->delegate) join_node(n->delegate);
  /* write my block (visible to my joiner) */
  size_t i;
  for (i = 0; i < n->blk_sz; i++) n->blk[i] = pat(n->tag, i);
  atomic_fetch_add(&g_end_cnt[n->end_kind], 1);
  atomic_store(&n->ret_stamp, myth_verif_stamp());
  switch (n->end_kind) {
  case END_EXIT0: myth_exit(value_of(n->tag)); break;
  case END_EXIT1: exit_nested(1, value_of(n->tag)); break;
  case END_EXIT3: exit_nested(3, value_of(n->tag)); break;
  default: break;
  }
  return value_of(n->tag);
}

/* ------------------------------------------------------------------ custom steal function (C02) */
static __thread uint64_t tls_steal_rng;
static _Atomic long g_st_take, g_st_decl_calls, g_st_declined, g_st_peek, g_st_pass_ok, g_st_pass_fail, g_st_got;
static int decide_half(myth_thread_t th, void * u) {
  uint64_t * r = (uint64_t *)u;
  (void)th;
  atomic_fetch_add(&g_st_decl_calls, 1);
  *r = hk_mix(*r);
  if (*r & 1) { atomic_fetch_add(&g_st_declined, 1); return 0; }
  return 1;
}
static myth_thread_t my_steal(int rank) {
  int nw = myth_get_num_workers();
  if (nw < 2) return 0;
  if (!tls_steal_rng) tls_steal_rng = hk_mix(0x77 + (uint64_t)rank);
  tls_steal_rng = hk_mix(tls_steal_rng);
  uint64_t x = tls_steal_rng;
  int victim = (int)((x >> 8) % (uint64_t)(nw - 1));
  if (victim >= rank) victim++;
  myth_thread_t th = 0;
  switch ((x >> 3) & 3) {
  case 0:
    th = myth_wsapi_runqueue_take(victim, 0, 0);
    atomic_fetch_add(&g_st_take, 1);
    break;
  case 1:
    th = myth_wsapi_runqueue_take(victim, decide_half, &tls_steal_rng);
    break;
  case 2: {
    char buf[64]; size_t sz = sizeof(buf);
    myth_wsapi_runqueue_peek(victim, buf, &sz);
    atomic_fetch_add(&g_st_peek, 1);
    th = myth_wsapi_runqueue_take(victim, 0, 0);
    break;
  }
  default:
    th = myth_wsapi_runqueue_take(victim, 0, 0);
    if (th && nw >= 3) {
      int target = (int)((x >> 20) % (uint64_t)nw);
      if (target != rank && target != victim) {
        if (myth_wsapi_runqueue_pass(target, th)) { atomic_fetch_add(&g_st_pass_ok, 1); return 0; }
        atomic_fetch_add(&g_st_pass_fail, 1);
      }
    }
    break;
  }
  if (th) atomic_fetch_add(&g_st_got, 1);
  return th;
}

static void deadlock_cb(FILE * out) {
  int n = atomic_load(&g_n_nodes), i, shown = 0;
  fprintf(out, "  unfinished tags:");
  for (i = 0; i < n && shown < 20; i++) {
    if (atomic_load(&g_nodes[i].runs) == 0) { fprintf(out, " %d(never-ran)", i); shown++; }
    else if (atomic_load(&g_nodes[i].ret_stamp) == 0) { fprintf(out, " %d(running/blocked,join_issued=%d)", i, atomic_load(&g_nodes[i].join_issued)); shown++; }
  }
  fprintf(out, "\n");
}

int main(int argc, char ** argv) {
  hk_init(argc, argv);
  uint64_t seed = hk_seed();
  int progs = (int)hk_arg("progs", 20);
  g_max_nodes = (int)hk_arg("maxth", 400);
  g_max_depth = (int)hk_arg("depth", 4);
  g_max_fan = (int)hk_arg("fan", 4);
  if (g_max_fan > 8) g_max_fan = 8;
  g_min_stack = (size_t)hk_arg("minstack", 16384);
  g_do_yields = (int)hk_arg("yields", 0);
  long nw = hk_arg("nw", 0);
  if (nw > 0) myth_globalattr_set_n_workers(0, (size_t)nw);
  if (hk_arg("pf", 0)) { /* parent-first by default */
    /* only the environment offers this; the driver sets MYTH_CHILD_FIRST=0 */
  }
  myth_verif_set_deadlock_cb(deadlock_cb);
  int custom_steal = (int)hk_arg("steal", 0);
  if (custom_steal) myth_wsapi_set_stealfunc(my_steal);
  myth_init();
  g_nodes = calloc((size_t)g_max_nodes, sizeof(node_t));
  long total_threads = 0;
  int p;
  for (p = 0; p < progs; p++) {
    atomic_store(&g_n_nodes, 0);
    node_t * root = new_node(0, hk_mix(seed * 1000003ULL + (uint64_t)p));
    root->mode = MODE_DEFAULT;
    root->end_kind = (int)(hk_mix(seed + (uint64_t)p) % N_END);
    root->blk_sz = 128;
    root->blk = calloc(1, 128);
    hk_rng_t r;
    hk_rng_seed(&r, seed, (uint64_t)p);
    create_child(root, &r);
    join_node(root);
    int n = atomic_load(&g_n_nodes), i;
    for (i = 0; i < n; i++) {
      int runs = atomic_load(&g_nodes[i].runs);
      HK_CHECK(runs == 1, runs == 0 ? "run-count:zero" : "run-count:multiple",
               "program %d: tag %d ran %d times at quiescence", p, i, runs);
    }
    total_threads += n;
    if (p < 2) hk_sample("prog %d: %d threads, root end kind %d, depth<=%d fan<=%d", p, n, root->end_kind, g_max_depth, g_max_fan);
  }
  hk_report("programs", progs);
  hk_report("threads", total_threads);
  hk_report("joins", atomic_load(&g_joins));
  hk_report("parent_migrated_during_create", atomic_load(&g_migrated_parent));
  static const char * mn[N_MODES] = { "mode_default", "mode_create_ex", "mode_attr_stack", "mode_attr_pf", "mode_attr_cf", "mode_null_id", "mode_attr_heap" };
  int m;
  for (m = 0; m < N_MODES; m++) hk_report(mn[m], atomic_load(&g_mode_cnt[m]));
  static const char * en[N_END] = { "end_return", "end_exit0", "end_exit1", "end_exit3" };
  for (m = 0; m < N_END; m++) hk_report(en[m], atomic_load(&g_end_cnt[m]));
  static const char * on[N_ORD] = { "order_fwd", "order_rev", "order_random", "order_delegate" };
  for (m = 0; m < N_ORD; m++) hk_report(on[m], atomic_load(&g_ord_cnt[m]));
  hk_report("workers", myth_get_num_workers());
  if (custom_steal) {
    hk_report("steal_plain_take_calls", atomic_load(&g_st_take));
    hk_report("steal_decide_callback_calls", atomic_load(&g_st_decl_calls));
    hk_report("steal_declined", atomic_load(&g_st_declined));
    hk_report("steal_peeks", atomic_load(&g_st_peek));
    hk_report("steal_passed_to_third_worker", atomic_load(&g_st_pass_ok));
    hk_report("steal_pass_failed", atomic_load(&g_st_pass_fail));
    hk_report("steal_threads_obtained", atomic_load(&g_st_got));
  }
  return hk_finish();
}
