/*
 * h_mutex --- C04: mutual exclusion, no lost wake-up, non-blocking trylock,
 * blocked lockers do not occupy a worker.
 * args: seed= progs= threads= mutexes= iters= nw=
 */
#ifndef _GNU_SOURCE
#define _GNU_SOURCE
#endif
#include <errno.h>
#include "hkm.h"

#define MAXM 8
#define MAXT 256

typedef struct { uint64_t a, b; long seq; } ival_t;   /* [a,b] in stamps; seq = order of the acquisition */

typedef struct {
  myth_mutex_t m;
  _Atomic int occ;
  volatile long counter;        /* plain; updated only inside the section */
  char pad[64];
} mx_t;

static mx_t g_mx[MAXM];
static int g_nm, g_nt, g_iters;
static _Atomic long g_acq[MAXM];
static _Atomic long g_lock_ops, g_try_ok, g_try_busy, g_timed_ok, g_timed_to, g_resumed_elsewhere;

/* per-thread logs for the offline trylock rule */
typedef struct { ival_t * holds[MAXM]; int nholds[MAXM]; ival_t * fails[MAXM]; int nfails[MAXM]; } tlog_t;
static tlog_t g_log[MAXT];

static long section(int m, hk_rng_t * r) {
  int o = atomic_fetch_add(&g_mx[m].occ, 1);
  HK_CHECK(o == 0, "mutex:two-holders", "mutex %d: %d other holder(s) inside the critical section", m, o);
  long c = g_mx[m].counter;
  unsigned k = (unsigned)hk_below(r, 10);
  if (k == 0) myth_yield();
  else if (k < 4) hk_work((unsigned)hk_below(r, 600));
  g_mx[m].counter = c + 1;
  o = atomic_fetch_sub(&g_mx[m].occ, 1);
  HK_CHECK(o == 1, "mutex:two-holders", "mutex %d: occupancy %d when leaving the critical section", m, o);
  atomic_fetch_add(&g_acq[m], 1);
  return c + 1;
}

static void * locker(void * arg_) {
  hkm_targ_t * a = (hkm_targ_t *)arg_;
  hk_rng_t r;
  hk_rng_seed(&r, a->rseed, 7);
  tlog_t * L = &g_log[a->idx];
  int i;
  for (i = 0; i < g_iters; i++) {
    int m = (int)hk_below(&r, (uint64_t)g_nm);
    int op = (int)hk_below(&r, 10);
    int got = 0;
    uint64_t c0 = myth_verif_stamp();
    int w0 = myth_get_worker_num();
    if (op < 5) {
      int rc = myth_mutex_lock(&g_mx[m].m);
      HK_CHECK(rc == 0, "mutex:lock-rc", "lock returned %d", rc);
      atomic_fetch_add(&g_lock_ops, 1);
      got = 1;
    } else if (op < 8) {
      int tries = 0;
      while (!got) {
        uint64_t t0 = myth_verif_stamp();
        myth_verif_nb_begin("myth_mutex_trylock");
        int rc = myth_mutex_trylock(&g_mx[m].m);
        myth_verif_nb_end();
        uint64_t t1 = myth_verif_stamp();
        if (rc == 0) { got = 1; c0 = t0; atomic_fetch_add(&g_try_ok, 1); break; }
        HK_CHECK(rc == EBUSY, "mutex:trylock-rc", "trylock returned %d", rc);
        atomic_fetch_add(&g_try_busy, 1);
        if (L->nfails[m] < g_iters * 4) { L->fails[m][L->nfails[m]].a = t0; L->fails[m][L->nfails[m]].b = t1; L->nfails[m]++; }
        if (++tries >= 3) break;
        myth_yield();
      }
      if (!got) {
        c0 = myth_verif_stamp();
        myth_mutex_lock(&g_mx[m].m);
        atomic_fetch_add(&g_lock_ops, 1);
        got = 1;
      }
    } else if (op == 8) {
      /* deadline a few microseconds away: the call either acquires (and then owns the mutex) or
         times out (and then does not: the mutex must stay available to everybody else); a time-out
         implies a failed attempt inside the call, so it is logged like a failed trylock */
      struct timespec ts;
      clock_gettime(CLOCK_REALTIME, &ts);
      ts.tv_nsec += (long)hk_below(&r, 150000);
      if (ts.tv_nsec >= 1000000000L) { ts.tv_nsec -= 1000000000L; ts.tv_sec++; }
      uint64_t t0 = myth_verif_stamp();
      int rc = myth_mutex_timedlock(&g_mx[m].m, &ts);
      uint64_t t1 = myth_verif_stamp();
      if (rc == 0) { got = 1; c0 = t0; atomic_fetch_add(&g_timed_ok, 1); }
      else {
        HK_CHECK(rc == ETIMEDOUT, "mutex:timedlock-rc", "timedlock returned %d", rc);
        atomic_fetch_add(&g_timed_to, 1);
        if (L->nfails[m] < g_iters * 4) { L->fails[m][L->nfails[m]].a = t0; L->fails[m][L->nfails[m]].b = t1; L->nfails[m]++; }
        c0 = myth_verif_stamp();
        myth_mutex_lock(&g_mx[m].m);
        atomic_fetch_add(&g_lock_ops, 1);
        got = 1;
      }
    } else {
      struct timespec ts;
      hkm_abstime_in(&ts, 3600);
      int rc = myth_mutex_timedlock(&g_mx[m].m, &ts);
      HK_CHECK(rc == 0, "mutex:timedlock-gave-up-early", "timedlock with a deadline one hour away returned %d", rc);
      atomic_fetch_add(&g_timed_ok, 1);
      got = 1;
    }
    if (myth_get_worker_num() != w0) atomic_fetch_add(&g_resumed_elsewhere, 1);
    long seq = section(m, &r);
    int rc = myth_mutex_unlock(&g_mx[m].m);
    (void)rc;
    uint64_t c1 = myth_verif_stamp();
    L->holds[m][L->nholds[m]].a = c0;
    L->holds[m][L->nholds[m]].b = c1;
    L->holds[m][L->nholds[m]].seq = seq;
    L->nholds[m]++;
    hkm_jitter(&r, 800);
  }
  return 0;
}

static int cmp_ival(const void * x, const void * y) {
  const ival_t * a = (const ival_t *)x, * b = (const ival_t *)y;
  return a->a < b->a ? -1 : a->a > b->a;
}

static int cmp_seq(const void * x, const void * y) {
  const ival_t * a = (const ival_t *)x, * b = (const ival_t *)y;
  return a->seq < b->seq ? -1 : a->seq > b->seq;
}

/* a failed trylock [t0,t1] is explained iff some hold interval [acq_call, unlock_ret] intersects it */
static long check_trylock_rule(void) {
  long checked = 0;
  int m, t;
  for (m = 0; m < g_nm; m++) {
    long n = 0;
    for (t = 0; t < g_nt; t++) n += g_log[t].nholds[m];
    ival_t * H = (ival_t *)malloc(sizeof(ival_t) * (size_t)(n + 1));
    long k = 0;
    for (t = 0; t < g_nt; t++) { memcpy(H + k, g_log[t].holds[m], sizeof(ival_t) * (size_t)g_log[t].nholds[m]); k += g_log[t].nholds[m]; }
    qsort(H, (size_t)n, sizeof(ival_t), cmp_ival);
    uint64_t * pmax = (uint64_t *)malloc(sizeof(uint64_t) * (size_t)(n + 1));
    uint64_t mx = 0;
    for (k = 0; k < n; k++) { if (H[k].b > mx) mx = H[k].b; pmax[k] = mx; }
    for (t = 0; t < g_nt; t++) {
      int f;
      for (f = 0; f < g_log[t].nfails[m]; f++) {
        ival_t q = g_log[t].fails[m][f];
        /* holds with acq_call < q.b : prefix [0,hi) */
        long lo = 0, hi = n;
        while (lo < hi) { long mid = (lo + hi) / 2; if (H[mid].a < q.b) lo = mid + 1; else hi = mid; }
        int explained = (lo > 0 && pmax[lo - 1] > q.a);
        HK_CHECK(explained, "mutex:trylock-failed-while-free",
                 "trylock on mutex %d failed during stamps [%llu,%llu] but no acquisition's [lock call, unlock return] interval intersects it",
                 m, (unsigned long long)q.a, (unsigned long long)q.b);
        checked++;
      }
    }
    /* sequence rule (sound given mutual exclusion, which the occupancy witness checks):
       acquisitions are totally ordered by seq; the mutex is free between the release of
       acquisition k and the acquisition k+1.  release_k <= unlock_ret_k and
       acquire_{k+1} >= lock_call_{k+1}, so a trylock wholly inside
       (unlock_ret_k, lock_call_{k+1}) failed although the mutex was free throughout. */
    qsort(H, (size_t)n, sizeof(ival_t), cmp_seq);
    for (k = 0; k < n; k++) HK_CHECK(H[k].seq == k + 1, "mutex:lost-update", "mutex %d: acquisition sequence numbers are not 1..n (position %ld has %ld)", m, k, H[k].seq);
    for (t = 0; t < g_nt; t++) {
      int f;
      for (f = 0; f < g_log[t].nfails[m]; f++) {
        ival_t q = g_log[t].fails[m][f];
        long lo = 0, hi = n;   /* first k with unlock_ret >= q.a (b is nearly monotone in seq order) */
        while (lo < hi) { long mid = (lo + hi) / 2; if (H[mid].b < q.a) lo = mid + 1; else hi = mid; }
        long k0 = lo - 4 < 0 ? 0 : lo - 4, k1 = lo + 4 > n ? n : lo + 4, kk;
        for (kk = k0; kk <= k1; kk++) {
          /* gap between acquisition kk (index kk-1) and kk+1 (index kk); kk==0: before the first; kk==n: after the last */
          int rel_before = (kk == 0) || (H[kk - 1].b < q.a);
          int acq_after = (kk == n) || (H[kk].a > q.b);
          HK_CHECK(!(rel_before && acq_after), "mutex:trylock-failed-while-free",
                   "trylock on mutex %d failed during stamps [%llu,%llu], but acquisition #%ld had returned from unlock at stamp %llu and the next acquisition (#%ld) only called lock at stamp %llu",
                   m, (unsigned long long)q.a, (unsigned long long)q.b, kk, (unsigned long long)(kk ? H[kk - 1].b : 0), kk + 1,
                   (unsigned long long)(kk < n ? H[kk].a : 0));
        }
      }
    }
    free(H); free(pmax);
  }
  return checked;
}

/* 1-worker style progress program: a blocked locker must give its worker away */
static myth_mutex_t g_pm;
static _Atomic int g_pflag, g_pblocked_started;
static long g_prog_round;
static void * p_blocker(void * a) { (void)a; atomic_store(&g_pblocked_started, 1); myth_mutex_lock(&g_pm); myth_mutex_unlock(&g_pm); return 0; }
static void * p_setter(void * a) { (void)a; atomic_store(&g_pflag, 1); return 0; }
static void progress_program(void) {
  myth_mutex_init(&g_pm, 0);
  atomic_store(&g_pflag, 0);
  myth_mutex_lock(&g_pm);
  /* several lockers behind one holder (child-first: each blocks on g_pm and must hand the worker back);
     the second and later waiters take the 'already has waiters' path of lock */
  myth_thread_t b[4];
  int nb = 1 + (int)(g_prog_round++ % 4), i;
  for (i = 0; i < nb; i++) b[i] = myth_create(p_blocker, 0);
  myth_thread_t s = myth_create(p_setter, 0);
  int ok = hkm_wait_flag(&g_pflag, 50000000L);
  HK_CHECK(ok, "mutex:blocked-locker-occupies-worker", "another thread never ran while %d lockers were blocked behind the holder", nb);
  myth_mutex_unlock(&g_pm);
  for (i = 0; i < nb; i++) myth_join(b[i], 0);
  myth_join(s, 0);
  myth_mutex_destroy(&g_pm);
}

int main(int argc, char ** argv) {
  hk_init(argc, argv);
  uint64_t seed = hk_seed();
  int progs = (int)hk_arg("progs", 6);
  hkm_setup();
  long total_acq = 0, rule_checked = 0;
  int p;
  for (p = 0; p < progs; p++) {
    hk_rng_t r;
    hk_rng_seed(&r, seed, (uint64_t)p);
    g_nm = (int)hk_arg("mutexes", 0);
    if (g_nm <= 0) g_nm = 1 + (int)hk_below(&r, 4);
    if (g_nm > MAXM) g_nm = MAXM;
    g_nt = (int)hk_arg("threads", 0);
    if (g_nt <= 0) { static const int ts[] = { 2, 3, 4, 8, 16, 40, 100, 200 }; g_nt = ts[hk_below(&r, 8)]; }
    if (g_nt > MAXT) g_nt = MAXT;
    g_iters = (int)hk_arg("iters", 0);
    if (g_iters <= 0) g_iters = (int)(4000 / g_nt) + 5;
    int m, t;
    for (m = 0; m < g_nm; m++) {
      myth_mutex_init(&g_mx[m].m, 0);
      atomic_store(&g_mx[m].occ, 0);
      g_mx[m].counter = 0;
      atomic_store(&g_acq[m], 0);
    }
    hkm_targ_t * args = (hkm_targ_t *)calloc((size_t)g_nt, sizeof(hkm_targ_t));
    for (t = 0; t < g_nt; t++) {
      args[t].idx = t;
      args[t].rseed = hk_rand(&r);
      for (m = 0; m < g_nm; m++) {
        g_log[t].holds[m] = (ival_t *)malloc(sizeof(ival_t) * (size_t)(g_iters + 1));
        g_log[t].fails[m] = (ival_t *)malloc(sizeof(ival_t) * (size_t)(g_iters * 4 + 1));
        g_log[t].nholds[m] = g_log[t].nfails[m] = 0;
      }
    }
    hkm_run_threads(g_nt, locker, args, 0);
    for (m = 0; m < g_nm; m++) {
      long acq = atomic_load(&g_acq[m]);
      HK_CHECK(g_mx[m].counter == acq, "mutex:lost-update",
               "mutex %d: counter updated inside the section is %ld after %ld acquisitions", m, g_mx[m].counter, acq);
      total_acq += acq;
      int rc = myth_mutex_trylock(&g_mx[m].m);
      HK_CHECK(rc == 0, "mutex:not-free-at-quiescence", "mutex %d not free after all threads finished (trylock -> %d)", m, rc);
      myth_mutex_unlock(&g_mx[m].m);
      myth_mutex_destroy(&g_mx[m].m);
    }
    rule_checked += check_trylock_rule();
    for (t = 0; t < g_nt; t++) for (m = 0; m < g_nm; m++) { free(g_log[t].holds[m]); free(g_log[t].fails[m]); }
    free(args);
    progress_program();
    if (p < 2) hk_sample("prog %d: %d threads x %d iterations over %d mutexes (lock/trylock/timedlock mix)", p, g_nt, g_iters, g_nm);
  }
  hk_report("programs", progs);
  hk_report("acquisitions", total_acq);
  hk_report("lock_calls", atomic_load(&g_lock_ops));
  hk_report("trylock_ok", atomic_load(&g_try_ok));
  hk_report("trylock_busy", atomic_load(&g_try_busy));
  hk_report("timedlock_ok", atomic_load(&g_timed_ok));
  hk_report("timedlock_timed_out", atomic_load(&g_timed_to));
  hk_report("failed_trylocks_checked_against_hold_intervals", rule_checked);
  hk_report("resumed_on_other_worker", atomic_load(&g_resumed_elsewhere));
  hk_report("workers", myth_get_num_workers());
  return hk_finish();
}
