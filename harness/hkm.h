/* hkm --- helpers for harnesses that use the myth API (header only) */
#pragma once
#ifndef HKM_H_
#define HKM_H_
#include <stdatomic.h>
#include <time.h>
#include <myth/myth.h>
#include "hk.h"

typedef struct {
  int idx;
  void * user;
  uint64_t rseed;
} hkm_targ_t;

/* create n threads running fn(&args[i]) and join them all; the creator itself keeps going
   (child-first creation means each child may run at once and the creator may migrate) */
static inline void hkm_run_threads(int n, myth_func_t fn, hkm_targ_t * args, size_t stacksize) {
  myth_thread_t * ids = (myth_thread_t *)malloc(sizeof(myth_thread_t) * (size_t)n);
  int i;
  for (i = 0; i < n; i++) {
    if (stacksize) {
      myth_thread_attr_t a;
      myth_thread_attr_init(&a);
      myth_thread_attr_setstacksize(&a, stacksize);
      int rc = myth_create_ex(&ids[i], &a, fn, &args[i]);
      HK_CHECK(rc == 0, "create:failed", "myth_create_ex returned %d", rc);
    } else {
      ids[i] = myth_create(fn, &args[i]);
      HK_CHECK(ids[i] != 0, "create:failed", "myth_create returned NULL");
    }
  }
  for (i = 0; i < n; i++) {
    int rc = myth_join(ids[i], 0);
    HK_CHECK(rc == 0, "join:rc", "myth_join returned %d", rc);
  }
  free(ids);
}

/* random post-release work so that a waker outlives its push (0-20 us) */
static inline void hkm_jitter(hk_rng_t * r, unsigned maxunits) {
  if (maxunits == 0) return;
  unsigned k = (unsigned)hk_below(r, 8);
  if (k < 3) return;
  if (k < 6) hk_work((unsigned)hk_below(r, maxunits));
  else myth_yield();
}

/* bounded yield-wait: returns 1 if *flag became non-zero */
static inline int hkm_wait_flag(_Atomic int * flag, long max_iter) {
  long i;
  for (i = 0; i < max_iter; i++) {
    if (atomic_load(flag)) return 1;
    myth_yield();
  }
  return atomic_load(flag) != 0;
}

static inline void hkm_abstime_in(struct timespec * ts, long sec) {
  clock_gettime(CLOCK_REALTIME, ts);
  ts->tv_sec += sec;
}

static inline void hkm_setup(void) {
  long nw = hk_arg("nw", 0);
  if (nw > 0) myth_globalattr_set_n_workers(0, (size_t)nw);
  myth_init();
}
#endif
