/*
 * h_init --- C15 (a): initialisation, worker count, finalisation.
 * One process per case.  Histories of init/work/fini cycles with a different
 * worker count each time, requested through the global attributes, through
 * myth_init_ex, or through MYTH_NUM_WORKERS; optional race of several OS
 * threads on the first myth_init; /proc/self/task counted before init, after
 * init and after fini; every user thread records its worker index and tid.
 * args: seed= cycles= maxw= racers= via=(attr|ex|env|mix)
 */
#ifndef _GNU_SOURCE
#define _GNU_SOURCE
#endif
#include <dirent.h>
#include <pthread.h>
#include <sys/syscall.h>
#include <unistd.h>
#include "hkm.h"

static int count_tasks(void) {
  DIR * d = opendir("/proc/self/task");
  int n = 0;
  struct dirent * e;
  if (!d) return -1;
  while ((e = readdir(d))) if (e->d_name[0] != '.') n++;
  closedir(d);
  return n;
}

#define MAXTID 4096
static _Atomic int g_tids[MAXTID];
static _Atomic int g_ntids;
static _Atomic long g_user_threads, g_index_checks;
static int g_expect_workers;

static void note_tid(void) {
  int tid = (int)syscall(SYS_gettid), i, n = atomic_load(&g_ntids);
  for (i = 0; i < n; i++) if (atomic_load(&g_tids[i]) == tid) return;
  /* racy insert is fine: duplicates are removed when counting */
  i = atomic_fetch_add(&g_ntids, 1);
  if (i < MAXTID) atomic_store(&g_tids[i], tid);
}
static int distinct_tids(void) {
  int n = atomic_load(&g_ntids), i, j, d = 0;
  if (n > MAXTID) n = MAXTID;
  for (i = 0; i < n; i++) { int dup = 0; for (j = 0; j < i; j++) if (atomic_load(&g_tids[j]) == atomic_load(&g_tids[i])) dup = 1; if (!dup) d++; }
  return d;
}

static void * worker_probe(void * a) {
  int k, depth = (int)(intptr_t)a;
  for (k = 0; k < 6; k++) {
    int w = myth_get_worker_num();
    HK_CHECK(w >= 0 && w < g_expect_workers, "init:worker-index-out-of-range", "myth_get_worker_num() = %d with %d workers", w, g_expect_workers);
    HK_CHECK(myth_get_num_workers() == g_expect_workers, "init:wrong-worker-count", "myth_get_num_workers() = %d inside a thread, expected %d", myth_get_num_workers(), g_expect_workers);
    note_tid();
    atomic_fetch_add(&g_index_checks, 1);
    if (k & 1) myth_yield_ex(myth_yield_option_steal_first); else hk_work(2000);
  }
  atomic_fetch_add(&g_user_threads, 1);
  if (depth > 0) {
    myth_thread_t c[2];
    c[0] = myth_create(worker_probe, (void *)(intptr_t)(depth - 1));
    c[1] = myth_create(worker_probe, (void *)(intptr_t)(depth - 1));
    myth_join(c[0], 0); myth_join(c[1], 0);
  }
  return 0;
}

static pthread_barrier_t g_race_bar, g_race_bar2;
static _Atomic int g_race_returned;
static void * racer(void * a) {
  (void)a;
  pthread_barrier_wait(&g_race_bar);
  myth_init();                               /* concurrent first use */
  atomic_fetch_add(&g_race_returned, 1);
  pthread_barrier_wait(&g_race_bar2);        /* everybody came back from myth_init */
  pthread_barrier_wait(&g_race_bar2);        /* parked until the process exits */
  return 0;
}

int main(int argc, char ** argv) {
  hk_init(argc, argv);
  uint64_t seed = hk_seed();
  int cycles = (int)hk_arg("cycles", 5);
  int maxw = (int)hk_arg("maxw", 16);
  int racers = (int)hk_arg("racers", 0);
  const char * via = hk_arg_s("via", "mix");
  hk_rng_t r; hk_rng_seed(&r, seed, 100);
  myth_verif_watchdog_enable(0);
  int base = count_tasks();
  long total_workers = 0, fini_migrated0 = 0;
  int c;
  for (c = 0; c < cycles; c++) {
    int n = 1 + (int)hk_below(&r, (uint64_t)maxw);
    int how = !strcmp(via, "attr") ? 0 : !strcmp(via, "ex") ? 1 : !strcmp(via, "env") ? 2 : (int)hk_below(&r, 3);
    g_expect_workers = n;
    atomic_store(&g_ntids, 0);
    int before = count_tasks();
    if (how == 2) {
      char buf[32]; snprintf(buf, sizeof(buf), "%d", n);
      setenv("MYTH_NUM_WORKERS", buf, 1);
      myth_globalattr_t ga;              /* a fresh attribute object picks the environment up again */
      myth_globalattr_init(&ga);
      size_t got = 0; myth_globalattr_get_n_workers(&ga, &got);
      HK_CHECK((int)got == n, "init:env-worker-count", "MYTH_NUM_WORKERS=%d gave attribute n_workers=%zu", n, got);
      myth_init_ex(&ga);
    } else if (how == 1) {
      unsetenv("MYTH_NUM_WORKERS");
      myth_globalattr_t ga;
      myth_globalattr_init(&ga);
      myth_globalattr_set_n_workers(&ga, (size_t)n);
      myth_init_ex(&ga);
    } else {
      unsetenv("MYTH_NUM_WORKERS");
      myth_globalattr_set_n_workers(0, (size_t)n);
      if (c == 0 && racers > 0) {
        /* several OS threads race on the very first initialisation; only the winner may go on using the library */
        pthread_t th[16];
        int i;
        pthread_barrier_init(&g_race_bar, 0, (unsigned)racers + 1);
        pthread_barrier_init(&g_race_bar2, 0, (unsigned)racers + 1);
        for (i = 0; i < racers; i++) pthread_create(&th[i], 0, racer, (void *)(intptr_t)(i + 1));
        pthread_barrier_wait(&g_race_bar);
        myth_init();
        atomic_fetch_add(&g_race_returned, 1);
        pthread_barrier_wait(&g_race_bar2);
        /* whichever OS thread won is worker 0 now and its continuation may run on any worker; the only
           thing every participant can still do safely is look at global state, so the case ends here */
        HK_CHECK(atomic_load(&g_race_returned) == racers + 1, "init:racer-stuck", "%d of %d racers returned from myth_init", atomic_load(&g_race_returned), racers + 1);
        HK_CHECK(myth_verif_hits("INIT_WON") == 1, "init:initialised-twice", "%llu initialisations ran for %d concurrent first uses", (unsigned long long)myth_verif_hits("INIT_WON"), racers + 1);
        HK_CHECK(myth_get_num_workers() == n, "init:wrong-worker-count", "race: requested %d workers, myth_get_num_workers() = %d", n, myth_get_num_workers());
        int tasks = count_tasks();
        HK_CHECK(tasks == before + racers + n - 1, "init:wrong-number-of-os-threads", "race: %d OS threads, expected %d (base %d + %d racers + %d workers - 1)", tasks, before + racers + n - 1, before, racers, n);
        hk_report("race_participants", racers + 1);
        hk_report("init_won", (long long)myth_verif_hits("INIT_WON"));
        hk_report("init_waited", (long long)myth_verif_hits("INIT_WAITED"));
        hk_sample("first-use race of %d OS threads for %d workers: exactly one initialisation ran, %llu participants waited for it", racers + 1, n, (unsigned long long)myth_verif_hits("INIT_WAITED"));
        hk_finish();
        _exit(0);
      } else {
        myth_init();
      }
    }
    int nw = myth_get_num_workers();
    HK_CHECK(nw == n, "init:wrong-worker-count", "cycle %d: requested %d workers (via %d), myth_get_num_workers() = %d", c, n, how, nw);
    int after_init = count_tasks();
    HK_CHECK(after_init == before + n - 1, "init:wrong-number-of-os-threads", "cycle %d: %d OS threads before init, %d after, expected %d (n=%d)", c, before, after_init, before + n - 1, n);
    /* work */
    myth_thread_t t = myth_create(worker_probe, (void *)(intptr_t)(3 + (int)hk_below(&r, 3)));
    myth_join(t, 0);
    int d = distinct_tids();
    HK_CHECK(d <= n, "init:too-many-os-threads-run-user-code", "user threads ran on %d distinct OS threads with %d workers", d, n);
    /* try to be on another worker when calling fini */
    int k;
    for (k = 0; k < 200 && myth_get_worker_num() == 0 && n > 1; k++) myth_yield_ex(myth_yield_option_steal_first);
    if (myth_get_worker_num() != 0) fini_migrated0++;
    myth_fini();
    /* pthread_join returns when the kernel clears the exiting thread's tid, a moment before the task
       disappears from /proc: give it a bounded grace period (seen under load) */
    int after_fini = count_tasks(), grace;
    for (grace = 0; grace < 400 && after_fini > before; grace++) { myth_verif_real_usleep(5000); after_fini = count_tasks(); }
    HK_CHECK(after_fini == before, "fini:os-threads-left", "cycle %d: %d OS threads after fini, %d before init (n=%d)", c, after_fini, before, n);
    total_workers += n;
    if (c < 2) hk_sample("cycle %d: %d workers requested via %s, %d OS threads before / %d after init / %d after fini, user code seen on %d OS threads",
                         c, n, how == 0 ? "global attribute" : how == 1 ? "myth_init_ex" : "MYTH_NUM_WORKERS", before, after_init, after_fini, d);
  }
  HK_CHECK(count_tasks() == base, "fini:os-threads-left", "%d OS threads at the end, %d at the start", count_tasks(), base);
  hk_report("cycles", cycles);
  hk_report("workers_total", total_workers);
  hk_report("user_threads", atomic_load(&g_user_threads));
  hk_report("worker_index_checks", atomic_load(&g_index_checks));
  hk_report("fini_called_off_worker0", fini_migrated0);
  hk_report("fini_migrations_hook", (long long)myth_verif_hits("FINI_MIGRATE"));
  hk_report("init_won", (long long)myth_verif_hits("INIT_WON"));
  hk_report("init_waited", (long long)myth_verif_hits("INIT_WAITED"));
  return hk_finish();
}
