/*
 * h_init --- C15 (a): initialisation, worker count, finalisation.
 * One process per case.  Histories of init/work/fini cycles with a different
 * worker count each time, requested through the global attributes, through
 * myth_init_ex, or through MYTH_NUM_WORKERS; optional race of several OS
 * threads on the first myth_init; /proc/self/task counted before init, after
 * init and after fini; every user thread records its worker index and tid.
 * args: seed= cycles= maxw= racers= via=(attr|ex|env|mix)
 */
#ifndef _GNU_SOURCE
#define _GNU_SOURCE
#endif
#include <dirent.h>
#include <pthread.h>
#include <sched.h>
#include <sys/syscall.h>
#include <unistd.h>
#include "hkm.h"

static int count_tasks(void) {
  DIR * d = opendir("/proc/self/task");
  int n = 0;
  struct dirent * e;
  if (!d) return -1;
  while ((e = readdir(d))) if (e->d_name[0] != '.') n++;
  closedir(d);
  return n;
}

#define MAXTID 4096
static _Atomic int g_tids[MAXTID];
static _Atomic int g_ntids;
static _Atomic long g_user_threads, g_index_checks;
static int g_expect_workers, g_fini_worker;
/* binding cycles: expected CPU of each worker rank (docs/bind.txt), -1 = not checked */
static int g_bind_check, g_expect_cpu[64];
static _Atomic long g_bind_checks;
static cpu_set_t g_s0;

static void note_tid(void) {
  int tid = (int)syscall(SYS_gettid), i, n = atomic_load(&g_ntids);
  for (i = 0; i < n; i++) if (atomic_load(&g_tids[i]) == tid) return;
  /* racy insert is fine: duplicates are removed when counting */
  i = atomic_fetch_add(&g_ntids, 1);
  if (i < MAXTID) atomic_store(&g_tids[i], tid);
}
static int distinct_tids(void) {
  int n = atomic_load(&g_ntids), i, j, d = 0;
  if (n > MAXTID) n = MAXTID;
  for (i = 0; i < n; i++) { int dup = 0; for (j = 0; j < i; j++) if (atomic_load(&g_tids[j]) == atomic_load(&g_tids[i])) dup = 1; if (!dup) d++; }
  return d;
}

static void * worker_probe(void * a) {
  int k, depth = (int)(intptr_t)a;
  for (k = 0; k < 6; k++) {
    int w = myth_get_worker_num();
    HK_CHECK(w >= 0 && w < g_expect_workers, "init:worker-index-out-of-range", "myth_get_worker_num() = %d with %d workers", w, g_expect_workers);
    HK_CHECK(myth_get_num_workers() == g_expect_workers, "init:wrong-worker-count", "myth_get_num_workers() = %d inside a thread, expected %d", myth_get_num_workers(), g_expect_workers);
    note_tid();
    atomic_fetch_add(&g_index_checks, 1);
    if (g_bind_check && w >= 0 && w < 64) {
      cpu_set_t cs; CPU_ZERO(&cs);
      sched_getaffinity(0, sizeof(cs), &cs);
      int want = g_expect_cpu[w];
      HK_CHECK(CPU_COUNT(&cs) == 1 && CPU_ISSET(want, &cs), "init:worker-bound-to-wrong-cpu",
               "worker %d of %d runs with %d allowed CPUs (first %d); MYTH_CPU_LIST=%s and the process mask require exactly CPU %d",
               w, g_expect_workers, CPU_COUNT(&cs), sched_getcpu(), getenv("MYTH_CPU_LIST") ? getenv("MYTH_CPU_LIST") : "(unset)", want);
      atomic_fetch_add(&g_bind_checks, 1);
    }
    if (k & 1) myth_yield_ex(myth_yield_option_steal_first); else hk_work(2000);
  }
  atomic_fetch_add(&g_user_threads, 1);
  if (depth > 0) {
    myth_thread_t c[2];
    c[0] = myth_create(worker_probe, (void *)(intptr_t)(depth - 1));
    c[1] = myth_create(worker_probe, (void *)(intptr_t)(depth - 1));
    myth_join(c[0], 0); myth_join(c[1], 0);
  }
  return 0;
}

static pthread_barrier_t g_race_bar, g_race_bar2;
static _Atomic int g_race_returned;
static void * racer(void * a) {
  (void)a;
  pthread_barrier_wait(&g_race_bar);
  myth_init();                               /* concurrent first use */
  atomic_fetch_add(&g_race_returned, 1);
  pthread_barrier_wait(&g_race_bar2);        /* everybody came back from myth_init */
  pthread_barrier_wait(&g_race_bar2);        /* parked until the process exits */
  return 0;
}

/* myth_fini must return: a plain OS thread watches the time spent inside it (a generous wall-clock
   bound: the call takes milliseconds; a finalisation that lost the main thread never returns) */
static _Atomic long g_fini_started_ms;
static long now_ms(void) { struct timespec ts; clock_gettime(CLOCK_MONOTONIC, &ts); return ts.tv_sec * 1000L + ts.tv_nsec / 1000000L; }
static void * fini_watch(void * a) {
  (void)a;
  for (;;) {
    myth_verif_real_usleep(200000);
    long t0 = atomic_load(&g_fini_started_ms);
    if (t0 && now_ms() - t0 > 120000) {
      HK_FAIL("fini:does-not-return", "myth_fini has not returned for %ld s (main thread on worker index %d when it was called)", (now_ms() - t0) / 1000, g_fini_worker);
      _exit(97);
    }
  }
  return 0;
}

int main(int argc, char ** argv) {
  hk_init(argc, argv);
  uint64_t seed = hk_seed();
  { pthread_t w; pthread_create(&w, 0, fini_watch, 0); pthread_detach(w); }
  int cycles = (int)hk_arg("cycles", 5);
  int maxw = (int)hk_arg("maxw", 16);
  int racers = (int)hk_arg("racers", 0);
  const char * via = hk_arg_s("via", "mix");
  hk_rng_t r; hk_rng_seed(&r, seed, 100);
  myth_verif_watchdog_enable(0);
  int base = count_tasks();
  int bind = (int)hk_arg("bind", 0);
  sched_getaffinity(0, sizeof(g_s0), &g_s0);
  long total_workers = 0, fini_migrated0 = 0, bound_cycles = 0;
  int c;
  for (c = 0; c < cycles; c++) {
    int n = 1 + (int)hk_below(&r, (uint64_t)maxw);
    int how = !strcmp(via, "attr") ? 0 : !strcmp(via, "ex") ? 1 : !strcmp(via, "env") ? 2 : (int)hk_below(&r, 3);
    g_expect_workers = n;
    atomic_store(&g_ntids, 0);
    g_bind_check = 0;
    if (bind) {
      /* a different CPU list every cycle; the main OS thread stays bound after a bound cycle, so give
         it the process's original mask back first (docs/bind.txt: S = what sched_getaffinity returns) */
      sched_setaffinity(0, sizeof(g_s0), &g_s0);
      int allowed[256], na = 0, cpu;
      for (cpu = 0; cpu < 256 && cpu < CPU_SETSIZE; cpu++) if (CPU_ISSET(cpu, &g_s0)) allowed[na++] = cpu;
      int eff[64], ne = 0;
      char list[512]; list[0] = 0;
      if (hk_below(&r, 5) == 0) {
        unsetenv("MYTH_CPU_LIST");                      /* S in ascending order */
        for (cpu = 0; cpu < na && ne < 64; cpu++) eff[ne++] = allowed[cpu];
      } else {
        int items = 1 + (int)hk_below(&r, 5), it;
        for (it = 0; it < items; it++) {
          char piece[64];
          int a = allowed[hk_below(&r, (uint64_t)na)];
          unsigned form = (unsigned)hk_below(&r, 4);
          if (form < 2) { snprintf(piece, sizeof(piece), "%d", a); if (ne < 64) eff[ne++] = a; }
          else if (form == 2) {                          /* a-b = a .. b-1 */
            int b = a + 1 + (int)hk_below(&r, 4), x;
            snprintf(piece, sizeof(piece), "%d-%d", a, b);
            for (x = a; x < b; x++) if (x < CPU_SETSIZE && CPU_ISSET(x, &g_s0) && ne < 64) eff[ne++] = x;
          } else {                                       /* a-b:c = a, a+c, ... < b */
            int st = 1 + (int)hk_below(&r, 3), b = a + 1 + (int)hk_below(&r, 8), x;
            snprintf(piece, sizeof(piece), "%d-%d:%d", a, b, st);
            for (x = a; x < b; x += st) if (x < CPU_SETSIZE && CPU_ISSET(x, &g_s0) && ne < 64) eff[ne++] = x;
          }
          if (it) strncat(list, ",", sizeof(list) - strlen(list) - 1);
          strncat(list, piece, sizeof(list) - strlen(list) - 1);
        }
        setenv("MYTH_CPU_LIST", list, 1);
      }
      setenv("MYTH_BIND_WORKERS", "1", 1);
      myth_globalattr_set_bind_workers(0, 1);
      if (ne > 0 && n <= 64) {
        int w;
        for (w = 0; w < n; w++) g_expect_cpu[w] = eff[w % ne];
        g_bind_check = 1;
        bound_cycles++;
      }
    }
    int before = count_tasks();
    if (how == 2) {
      char buf[32]; snprintf(buf, sizeof(buf), "%d", n);
      setenv("MYTH_NUM_WORKERS", buf, 1);
      myth_globalattr_t ga;              /* a fresh attribute object picks the environment up again */
      myth_globalattr_init(&ga);
      size_t got = 0; myth_globalattr_get_n_workers(&ga, &got);
      HK_CHECK((int)got == n, "init:env-worker-count", "MYTH_NUM_WORKERS=%d gave attribute n_workers=%zu", n, got);
      myth_init_ex(&ga);
    } else if (how == 1) {
      unsetenv("MYTH_NUM_WORKERS");
      myth_globalattr_t ga;
      myth_globalattr_init(&ga);
      myth_globalattr_set_n_workers(&ga, (size_t)n);
      myth_init_ex(&ga);
    } else {
      unsetenv("MYTH_NUM_WORKERS");
      myth_globalattr_set_n_workers(0, (size_t)n);
      if (c == 0 && racers > 0) {
        /* several OS threads race on the very first initialisation; only the winner may go on using the library */
        pthread_t th[16];
        int i;
        pthread_barrier_init(&g_race_bar, 0, (unsigned)racers + 1);
        pthread_barrier_init(&g_race_bar2, 0, (unsigned)racers + 1);
        for (i = 0; i < racers; i++) pthread_create(&th[i], 0, racer, (void *)(intptr_t)(i + 1));
        pthread_barrier_wait(&g_race_bar);
        myth_init();
        atomic_fetch_add(&g_race_returned, 1);
        pthread_barrier_wait(&g_race_bar2);
        /* whichever OS thread won is worker 0 now and its continuation may run on any worker; the only
           thing every participant can still do safely is look at global state, so the case ends here */
        HK_CHECK(atomic_load(&g_race_returned) == racers + 1, "init:racer-stuck", "%d of %d racers returned from myth_init", atomic_load(&g_race_returned), racers + 1);
        HK_CHECK(myth_verif_hits("INIT_WON") == 1, "init:initialised-twice", "%llu initialisations ran for %d concurrent first uses", (unsigned long long)myth_verif_hits("INIT_WON"), racers + 1);
        HK_CHECK(myth_get_num_workers() == n, "init:wrong-worker-count", "race: requested %d workers, myth_get_num_workers() = %d", n, myth_get_num_workers());
        int tasks = count_tasks();
        HK_CHECK(tasks == before + racers + n - 1, "init:wrong-number-of-os-threads", "race: %d OS threads, expected %d (base %d + %d racers + %d workers - 1)", tasks, before + racers + n - 1, before, racers, n);
        hk_report("race_participants", racers + 1);
        hk_report("init_won", (long long)myth_verif_hits("INIT_WON"));
        hk_report("init_waited", (long long)myth_verif_hits("INIT_WAITED"));
        hk_sample("first-use race of %d OS threads for %d workers: exactly one initialisation ran, %llu participants waited for it", racers + 1, n, (unsigned long long)myth_verif_hits("INIT_WAITED"));
        hk_finish();
        _exit(0);
      } else {
        myth_init();
      }
    }
    int nw = myth_get_num_workers();
    HK_CHECK(nw == n, "init:wrong-worker-count", "cycle %d: requested %d workers (via %d), myth_get_num_workers() = %d", c, n, how, nw);
    int after_init = count_tasks();
    HK_CHECK(after_init == before + n - 1, "init:wrong-number-of-os-threads", "cycle %d: %d OS threads before init, %d after, expected %d (n=%d)", c, before, after_init, before + n - 1, n);
    /* work */
    myth_thread_t t = myth_create(worker_probe, (void *)(intptr_t)(3 + (int)hk_below(&r, 3)));
    myth_join(t, 0);
    int d = distinct_tids();
    HK_CHECK(d <= n, "init:too-many-os-threads-run-user-code", "user threads ran on %d distinct OS threads with %d workers", d, n);
    /* try to be on another worker when calling fini */
    int k;
    for (k = 0; k < 200 && myth_get_worker_num() == 0 && n > 1; k++) myth_yield_ex(myth_yield_option_steal_first);
    if (myth_get_worker_num() != 0) fini_migrated0++;
    g_fini_worker = myth_get_worker_num();
    atomic_store(&g_fini_started_ms, now_ms());
    myth_fini();
    atomic_store(&g_fini_started_ms, 0);
    /* pthread_join returns when the kernel clears the exiting thread's tid, a moment before the task
       disappears from /proc: give it a bounded grace period (seen under load) */
    int after_fini = count_tasks(), grace;
    for (grace = 0; grace < 400 && after_fini > before; grace++) { myth_verif_real_usleep(5000); after_fini = count_tasks(); }
    HK_CHECK(after_fini == before, "fini:os-threads-left", "cycle %d: %d OS threads after fini, %d before init (n=%d)", c, after_fini, before, n);
    total_workers += n;
    if (c < 2) hk_sample("cycle %d: %d workers requested via %s, %d OS threads before / %d after init / %d after fini, user code seen on %d OS threads",
                         c, n, how == 0 ? "global attribute" : how == 1 ? "myth_init_ex" : "MYTH_NUM_WORKERS", before, after_init, after_fini, d);
  }
  HK_CHECK(count_tasks() == base, "fini:os-threads-left", "%d OS threads at the end, %d at the start", count_tasks(), base);
  hk_report("cycles", cycles);
  hk_report("cycles_with_binding_checked", bound_cycles);
  hk_report("worker_affinity_checks", atomic_load(&g_bind_checks));
  hk_report("workers_total", total_workers);
  hk_report("user_threads", atomic_load(&g_user_threads));
  hk_report("worker_index_checks", atomic_load(&g_index_checks));
  hk_report("fini_called_off_worker0", fini_migrated0);
  hk_report("fini_migrations_hook", (long long)myth_verif_hits("FINI_MIGRATE"));
  hk_report("init_won", (long long)myth_verif_hits("INIT_WON"));
  hk_report("init_waited", (long long)myth_verif_hits("INIT_WAITED"));
  return hk_finish();
}
