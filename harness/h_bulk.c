/*
 * h_bulk --- C17 (C part): myth_create_join_many_ex / myth_create_join_various_ex
 * equal the sequential loop.  Arguments, results and ids live in exactly sized heap
 * blocks (ASan catches any access outside them) with guard bytes between slots.
 * args: seed= cases= nw=
 */
#ifndef _GNU_SOURCE
#define _GNU_SOURCE
#endif
#include "hkm.h"

#define GUARD 0xC7
#define NFUNCS 5

typedef struct { uint64_t magic; long idx; } argslot_t;
static _Atomic int * g_count;
static long g_n;
static _Atomic long g_calls;

static inline void * fval(int k, long idx) { return (void *)(uintptr_t)(hk_mix((uint64_t)k * 1000003 + (uint64_t)idx) | 1); }
#define DEF_F(k) static void * f##k(void * a_) { \
    argslot_t * a = (argslot_t *)a_; \
    HK_CHECK(a->magic == (0xabcdef00ULL ^ (uint64_t)a->idx) && a->idx >= 0 && a->idx < g_n, "bulk:wrong-argument", "function %d received a pointer that is not one of the argument slots", k); \
    int c = atomic_fetch_add(&g_count[a->idx], 1); \
    HK_CHECK(c == 0, "bulk:applied-twice", "f was applied %d times to item %ld", c + 1, a->idx); \
    atomic_fetch_add(&g_calls, 1); \
    if ((a->idx & 7) == k) myth_yield(); \
    return fval(k, a->idx); }
DEF_F(0) DEF_F(1) DEF_F(2) DEF_F(3) DEF_F(4)
static myth_func_t const g_funcs[NFUNCS] = { f0, f1, f2, f3, f4 };

typedef struct { unsigned char * mem; size_t size, stride, elem; long n; } strided_t;
/* n elements of `elem` bytes at `stride` bytes (stride >= elem), exactly sized; gaps filled with guard bytes */
static void st_alloc(strided_t * s, long n, size_t elem, size_t stride) {
  s->n = n; s->elem = elem; s->stride = stride;
  s->size = n > 0 ? (size_t)(n - 1) * stride + elem : 0;
  s->mem = (unsigned char *)malloc(s->size ? s->size : 1);
  memset(s->mem, GUARD, s->size ? s->size : 1);
}
static void * st_at(strided_t * s, long i) { return s->mem + (size_t)i * s->stride; }
static void st_check_gaps(strided_t * s, const char * what) {
  long i; size_t j;
  if (s->stride == s->elem) return;
  for (i = 0; i + 1 < s->n; i++)
    for (j = s->elem; j < s->stride; j++)
      HK_CHECK(s->mem[(size_t)i * s->stride + j] == GUARD, "bulk:wrote-outside-slot", "%s: byte %zu after slot %ld was overwritten", what, j - s->elem, i);
}

static long g_cases_by_n[16];

static void one_case(hk_rng_t * r) {
  static const long ns[] = { 0, 1, 2, 3, 5, 8, 100, 1000, 10000 };
  int ni = (int)hk_below(r, 9);
  long n = ns[ni];
  if (n == 10000 && hk_below(r, 4)) { n = 100; ni = 6; }
  g_cases_by_n[ni]++;
  g_n = n;
  g_count = (_Atomic int *)calloc((size_t)(n ? n : 1), sizeof(_Atomic int));
  int various = (int)hk_below(r, 2);
  int with_ids = (int)hk_below(r, 2), with_res = (int)hk_below(r, 3) != 0, with_attrs = (int)hk_below(r, 3) == 0;
  size_t arg_stride = sizeof(argslot_t) + 8 * (size_t)hk_below(r, 4);
  size_t res_stride = sizeof(void *) + 8 * (size_t)hk_below(r, 3);
  size_t id_stride = sizeof(myth_thread_t) + 8 * (size_t)hk_below(r, 3);
  size_t attr_stride = sizeof(myth_thread_attr_t) + 8 * (size_t)hk_below(r, 2);
  int shared_func = various && hk_below(r, 3) == 0;                 /* func_stride 0: one shared slot */
  size_t func_stride = shared_func ? 0 : sizeof(myth_func_t) + 8 * (size_t)hk_below(r, 2);
  strided_t A, R, I, T, F;
  st_alloc(&A, n, sizeof(argslot_t), arg_stride);
  st_alloc(&R, with_res ? n : 0, sizeof(void *), res_stride);
  st_alloc(&I, with_ids ? n : 0, sizeof(myth_thread_t), id_stride);
  st_alloc(&T, with_attrs ? n : 0, sizeof(myth_thread_attr_t), attr_stride);
  st_alloc(&F, various ? (shared_func ? (n ? 1 : 0) : n) : 0, sizeof(myth_func_t), func_stride ? func_stride : sizeof(myth_func_t));
  int * fk = (int *)calloc((size_t)(n ? n : 1), sizeof(int));
  long i;
  int k0 = (int)hk_below(r, NFUNCS);
  for (i = 0; i < n; i++) {
    argslot_t * a = (argslot_t *)st_at(&A, i);
    a->idx = i; a->magic = 0xabcdef00ULL ^ (uint64_t)i;
    fk[i] = (various && !shared_func) ? (int)hk_below(r, NFUNCS) : k0;
    if (various && !shared_func) *(myth_func_t *)st_at(&F, i) = g_funcs[fk[i]];
    if (with_attrs) {
      myth_thread_attr_t * at = (myth_thread_attr_t *)st_at(&T, i);
      myth_thread_attr_init(at);
      if (hk_below(r, 3) == 0) myth_thread_attr_setstacksize(at, 32768 * (1 + (size_t)hk_below(r, 4)));
      if (hk_below(r, 3) == 0) at->child_first = 0;
    }
  }
  if (various && shared_func && n) *(myth_func_t *)st_at(&F, 0) = g_funcs[k0];
  long calls0 = atomic_load(&g_calls);
  int rc;
  hk_crumb(various ? "create_join_various_ex" : "create_join_many_ex");
  if (various)
    rc = myth_create_join_various_ex(with_ids ? (myth_thread_t *)I.mem : 0, with_attrs ? (myth_thread_attr_t *)T.mem : 0,
                                     (myth_func_t *)(n ? F.mem : 0), n ? A.mem : 0, with_res ? R.mem : 0,
                                     id_stride, attr_stride, func_stride, arg_stride, res_stride, n);
  else
    rc = myth_create_join_many_ex(with_ids ? (myth_thread_t *)I.mem : 0, with_attrs ? (myth_thread_attr_t *)T.mem : 0,
                                  g_funcs[k0], n ? A.mem : 0, with_res ? R.mem : 0,
                                  id_stride, attr_stride, arg_stride, res_stride, n);
  hk_crumb(0);
  HK_CHECK(rc == 0, "bulk:rc", "bulk helper returned %d", rc);
  HK_CHECK(atomic_load(&g_calls) - calls0 == n, "bulk:call-count", "%ld applications for n=%ld", atomic_load(&g_calls) - calls0, n);
  for (i = 0; i < n; i++) {
    int c = atomic_load(&g_count[i]);
    HK_CHECK(c == 1, c == 0 ? "bulk:item-skipped" : "bulk:applied-twice", "item %ld of %ld was processed %d times when the helper returned", i, n, c);
    argslot_t * a = (argslot_t *)st_at(&A, i);
    HK_CHECK(a->idx == i && a->magic == (0xabcdef00ULL ^ (uint64_t)i), "bulk:wrote-outside-slot", "argument slot %ld was modified", i);
    if (with_res) {
      void * got = *(void **)st_at(&R, i);
      HK_CHECK(got == fval(fk[i], i), "bulk:wrong-result", "result slot %ld holds %p, the sequential loop gives %p", i, got, fval(fk[i], i));
    }
    if (with_ids) {
      myth_thread_t id = *(myth_thread_t *)st_at(&I, i);
      HK_CHECK(id != 0 && (uintptr_t)id != (uintptr_t)0xC7C7C7C7C7C7C7C7ULL, "bulk:id-not-stored", "id slot %ld was not filled", i);
    }
  }
  /* ids are not required to be pairwise distinct: a leaf thread that has been joined inside the helper gives its
     record back and a later item's thread may reuse it (the first version of this harness demanded distinctness and
     was wrong) */
  st_check_gaps(&A, "args"); st_check_gaps(&R, "results"); st_check_gaps(&I, "ids"); st_check_gaps(&T, "attrs");
  if (hk_below(r, 50) == 0 || n == 0)
    hk_sample("%s n=%ld ids=%d results=%d attrs=%d strides(arg %zu, res %zu, id %zu, func %zu)", various ? "various" : "many", n, with_ids, with_res, with_attrs, arg_stride, res_stride, id_stride, func_stride);
  free(A.mem); free(R.mem); free(I.mem); free(T.mem); free(F.mem); free(fk); free((void *)g_count);
}

int main(int argc, char ** argv) {
  hk_init(argc, argv);
  uint64_t seed = hk_seed();
  int cases = (int)hk_arg("cases", 300);
  hkm_setup();
  hk_rng_t r; hk_rng_seed(&r, seed, 120);
  int i;
  for (i = 0; i < cases; i++) one_case(&r);
  static const char * nm[] = { "n0", "n1", "n2", "n3", "n5", "n8", "n100", "n1000", "n10000" };
  for (i = 0; i < 9; i++) { char b[32]; snprintf(b, sizeof(b), "cases_%s", nm[i]); hk_report(b, g_cases_by_n[i]); }
  hk_report("cases", cases);
  hk_report("applications", atomic_load(&g_calls));
  hk_report("workers", myth_get_num_workers());
  return hk_finish();
}
