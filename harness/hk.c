#include "hk.h"
#include <stdarg.h>
#include <unistd.h>

#define MAXA 64
static struct { char key[48]; char val[208]; } g_args[MAXA];
static int g_nargs;
#define MAXR 96
static struct { char key[48]; long long v; char s[96]; int is_s; } g_rep[MAXR];
static int g_nrep;
static char g_samples[3][400];
static int g_nsamples;
static char g_cmdline[1024];

#include <signal.h>
static __thread const char * tls_crumb;
static __thread uint64_t tls_crumb_t;
static inline uint64_t hk_tsc(void) { uint32_t lo, hi; __asm__ __volatile__("rdtsc" : "=a"(lo), "=d"(hi)); return ((uint64_t)hi << 32) | lo; }
void hk_crumb(const char * what) { tls_crumb = what; tls_crumb_t = hk_tsc(); }

#if !defined(__SANITIZE_ADDRESS__)
static void hk_crash_handler(int sig) {
  static const char * names[32] = { [SIGSEGV] = "SIGSEGV", [SIGBUS] = "SIGBUS", [SIGILL] = "SIGILL", [SIGFPE] = "SIGFPE", [SIGABRT] = "SIGABRT" };
  char line[256];
  const char * c = tls_crumb;
  /* a crumb older than ~1 s (at >= 1 GHz) is stale */
  if (c && hk_tsc() - tls_crumb_t > 4000000000ULL) c = 0;
  int n = snprintf(line, sizeof(line), "\nVVIOL key=crash:%s%s%s msg=signal %d on worker %d\n",
                   (sig < 32 && names[sig]) ? names[sig] : "SIG?", c ? ":" : "", c ? c : "", sig, myth_verif_my_rank());
  if (n > 0) { ssize_t w = write(1, line, (size_t)n); (void)w; }
  signal(sig, SIG_DFL);
  raise(sig);
}
#endif

void hk_init(int argc, char ** argv) {
  int i;
  size_t o = 0;
  setvbuf(stdout, 0, _IOLBF, 0);
#if !defined(__SANITIZE_ADDRESS__)
  {
    struct sigaction sa;
    memset(&sa, 0, sizeof(sa));
    sa.sa_handler = hk_crash_handler;
    sa.sa_flags = SA_NODEFER;
    sigaction(SIGSEGV, &sa, 0);
    sigaction(SIGBUS, &sa, 0);
    sigaction(SIGILL, &sa, 0);
    sigaction(SIGFPE, &sa, 0);
    sigaction(SIGABRT, &sa, 0);
  }
#endif
  for (i = 1; i < argc && g_nargs < MAXA; i++) {
    char * eq = strchr(argv[i], '=');
    if (o + strlen(argv[i]) + 2 < sizeof(g_cmdline)) {
      o += (size_t)snprintf(g_cmdline + o, sizeof(g_cmdline) - o, "%s%s", i > 1 ? " " : "", argv[i]);
    }
    if (!eq) continue;
    size_t kl = (size_t)(eq - argv[i]);
    if (kl >= sizeof(g_args[0].key)) kl = sizeof(g_args[0].key) - 1;
    memcpy(g_args[g_nargs].key, argv[i], kl);
    g_args[g_nargs].key[kl] = 0;
    strncpy(g_args[g_nargs].val, eq + 1, sizeof(g_args[0].val) - 1);
    g_nargs++;
  }
}

const char * hk_arg_s(const char * name, const char * dflt) {
  int i;
  for (i = 0; i < g_nargs; i++) if (strcmp(g_args[i].key, name) == 0) return g_args[i].val;
  return dflt;
}
long hk_arg(const char * name, long dflt) {
  const char * s = hk_arg_s(name, 0);
  return s ? strtol(s, 0, 0) : dflt;
}
uint64_t hk_seed(void) {
  const char * s = hk_arg_s("seed", 0);
  return s ? strtoull(s, 0, 10) : 1;
}

void hk_report(const char * name, long long value) {
  int i;
  for (i = 0; i < g_nrep; i++) if (!g_rep[i].is_s && strcmp(g_rep[i].key, name) == 0) { g_rep[i].v = value; return; }
  if (g_nrep >= MAXR) return;
  strncpy(g_rep[g_nrep].key, name, sizeof(g_rep[0].key) - 1);
  g_rep[g_nrep].v = value;
  g_rep[g_nrep].is_s = 0;
  g_nrep++;
}
void hk_report_s(const char * name, const char * value) {
  if (g_nrep >= MAXR) return;
  strncpy(g_rep[g_nrep].key, name, sizeof(g_rep[0].key) - 1);
  strncpy(g_rep[g_nrep].s, value, sizeof(g_rep[0].s) - 1);
  g_rep[g_nrep].is_s = 1;
  g_nrep++;
}
void hk_sample(const char * fmt, ...) {
  if (g_nsamples >= 3) return;
  va_list ap;
  va_start(ap, fmt);
  vsnprintf(g_samples[g_nsamples], sizeof(g_samples[0]), fmt, ap);
  va_end(ap);
  /* keep JSON-safe */
  char * p;
  for (p = g_samples[g_nsamples]; *p; p++) if (*p == '"' || *p == '\\' || (unsigned char)*p < 32) *p = '\'';
  g_nsamples++;
}

int hk_finish(void) {
  static char rt[32768];
  static char out[40000];
  size_t o = 0;
  int i;
  if (myth_verif_summary_json(rt, sizeof(rt)) < 0) strcpy(rt, "{}");
  o += (size_t)snprintf(out + o, sizeof(out) - o, "VSUM {\"args\":\"%s\",\"h\":{", g_cmdline);
  for (i = 0; i < g_nrep; i++) {
    if (g_rep[i].is_s)
      o += (size_t)snprintf(out + o, sizeof(out) - o, "%s\"%s\":\"%s\"", i ? "," : "", g_rep[i].key, g_rep[i].s);
    else
      o += (size_t)snprintf(out + o, sizeof(out) - o, "%s\"%s\":%lld", i ? "," : "", g_rep[i].key, g_rep[i].v);
  }
  o += (size_t)snprintf(out + o, sizeof(out) - o, "},\"samples\":[");
  for (i = 0; i < g_nsamples; i++)
    o += (size_t)snprintf(out + o, sizeof(out) - o, "%s\"%s\"", i ? "," : "", g_samples[i]);
  o += (size_t)snprintf(out + o, sizeof(out) - o, "],\"rt\":%s}\n", rt);
  fflush(stdout);
  {
    size_t w = 0;
    while (w < o) { ssize_t r = write(1, out + w, o - w); if (r <= 0) break; w += (size_t)r; }
  }
  return 0;
}

static volatile unsigned long hk_sink;
void hk_work(unsigned n) {
  unsigned i;
  unsigned long x = hk_sink + n;
  for (i = 0; i < n; i++) x = x * 6364136223846793005UL + 1442695040888963407UL;
  hk_sink = x;
}

/* ---- no-progress watch: a plain OS thread reports <key> when hk_progress() has not been called for `secs`
   seconds (generous wall-clock bound; an operation that "everyone returns" from takes microseconds).  It turns a
   workload that will never finish into a named verdict long before the driver's time-out. ---- */
#include <pthread.h>
#include <stdatomic.h>
static _Atomic unsigned long long g_progress;
static const char * g_watch_key;
static int g_watch_secs;
void myth_verif_real_usleep(unsigned us);
void myth_verif_violation(const char * key, const char * fmt, ...);
void hk_progress(void) { atomic_fetch_add_explicit(&g_progress, 1, memory_order_relaxed); }
static void * hk_watch_main(void * a) {
  (void)a;
  unsigned long long last = atomic_load(&g_progress);
  int idle_ticks = 0;
  for (;;) {
    myth_verif_real_usleep(500000);
    unsigned long long now = atomic_load(&g_progress);
    if (now != last) { last = now; idle_ticks = 0; continue; }
    if (++idle_ticks >= g_watch_secs * 2) {
      myth_verif_violation(g_watch_key, "no operation completed for %d s (%llu completed before); last breadcrumb of this run: see events above", g_watch_secs, now);
      _exit(97);
    }
  }
  return 0;
}
void hk_watch_start(const char * key, int secs) {
  pthread_t t;
  g_watch_key = key; g_watch_secs = secs;
  pthread_create(&t, 0, hk_watch_main, 0);
  pthread_detach(t);
}
