/*
 * h_jc --- C07: join counter.  A wait returns only after N decs were *called*;
 * every waiter is released by the N-th dec; later waits return at once.
 * Also DAG programs (1-D stencil, random DAG) whose nodes assert that all
 * predecessors are done.
 * args: seed= progs= nw=
 */
#ifndef _GNU_SOURCE
#define _GNU_SOURCE
#endif
#include <limits.h>
#include "hkm.h"

static myth_join_counter_t g_jc;
static long g_N;
static _Atomic long g_decs_started, g_decs_done;
static _Atomic long g_waits_blocked_maybe, g_waits_after, g_total_waits, g_total_decs;

static void * waiter(void * a_) {
  hkm_targ_t * a = (hkm_targ_t *)a_;
  hk_rng_t r; hk_rng_seed(&r, a->rseed, 21);
  int y = (int)hk_below(&r, 4);
  while (y-- > 0) myth_yield();
  int late = (atomic_load(&g_decs_done) == g_N);
  if (late) myth_verif_nb_begin("myth_join_counter_wait after the last dec returned");
  int rc = myth_join_counter_wait(&g_jc);
  if (late) { myth_verif_nb_end(); atomic_fetch_add(&g_waits_after, 1); } else atomic_fetch_add(&g_waits_blocked_maybe, 1);
  long st = atomic_load(&g_decs_started);
  HK_CHECK(rc == 0, "jc:wait-rc", "wait returned %d", rc);
  HK_CHECK(st >= g_N, "jc:released-early", "wait returned after only %ld of %ld decrements had been called", st, g_N);
  atomic_fetch_add(&g_total_waits, 1);
  return 0;
}
static void * decrementer(void * a_) {
  hkm_targ_t * a = (hkm_targ_t *)a_;
  hk_rng_t r; hk_rng_seed(&r, a->rseed, 22);
  long n = (long)(intptr_t)a->user, i;
  for (i = 0; i < n; i++) {
    if (hk_below(&r, 8) == 0) myth_yield();
    atomic_fetch_add(&g_decs_started, 1);
    int rc = myth_join_counter_dec(&g_jc);
    HK_CHECK(rc == 0, "jc:dec-rc", "dec returned %d", rc);
    atomic_fetch_add(&g_decs_done, 1);
    atomic_fetch_add(&g_total_decs, 1);
  }
  return 0;
}
typedef struct { int kind; } role_t;
static int g_nwait, g_ndec;
static void * role_thread(void * a_) {
  hkm_targ_t * a = (hkm_targ_t *)a_;
  return a->idx < g_ndec ? decrementer(a_) : waiter(a_);
}

static void counter_program(hk_rng_t * r) {
  static const long Ns[] = { 0, 1, 2, 3, 4, 7, 8, 15, 16, 255, 256, 1000, 65535, 65536 };
  g_N = Ns[hk_below(r, sizeof(Ns) / sizeof(Ns[0]))];
  if (hk_arg("n", -1) >= 0) g_N = hk_arg("n", -1);
  myth_join_counter_init(&g_jc, 0, g_N);
  atomic_store(&g_decs_started, 0); atomic_store(&g_decs_done, 0);
  g_ndec = g_N == 0 ? 0 : 1 + (int)hk_below(r, 8);
  if (g_ndec > g_N) g_ndec = (int)g_N;
  g_nwait = (int)hk_below(r, 40);
  if (hk_below(r, 5) == 0) g_nwait = 64;
  int n = g_ndec + g_nwait, i;
  hkm_targ_t * args = (hkm_targ_t *)calloc((size_t)n + 1, sizeof(hkm_targ_t));
  /* interleave creation order of waiters and decrementers randomly through idx mapping: threads
     are created in idx order; shuffle which idx gets created when by creating in a random order */
  for (i = 0; i < n; i++) {
    args[i].idx = i; args[i].rseed = hk_rand(r);
    if (i < g_ndec) { long share = g_N / g_ndec + (i < g_N % g_ndec ? 1 : 0); args[i].user = (void *)(intptr_t)share; }
  }
  /* random creation order */
  myth_thread_t * ids = (myth_thread_t *)malloc(sizeof(myth_thread_t) * (size_t)(n + 1));
  int * ord = (int *)malloc(sizeof(int) * (size_t)(n + 1));
  for (i = 0; i < n; i++) ord[i] = i;
  for (i = n - 1; i > 0; i--) { int j = (int)hk_below(r, (uint64_t)i + 1); int t = ord[i]; ord[i] = ord[j]; ord[j] = t; }
  for (i = 0; i < n; i++) ids[i] = myth_create(role_thread, &args[ord[i]]);
  for (i = 0; i < n; i++) myth_join(ids[i], 0);
  HK_CHECK(atomic_load(&g_decs_done) == g_N, "jc:harness", "decs %ld != N %ld", atomic_load(&g_decs_done), g_N);
  /* a wait issued afterwards returns immediately */
  myth_verif_nb_begin("myth_join_counter_wait after completion");
  int rc = myth_join_counter_wait(&g_jc);
  myth_verif_nb_end();
  HK_CHECK(rc == 0, "jc:wait-rc", "late wait returned %d", rc);
  free(ids); free(ord); free(args);
  hk_sample("join counter N=%ld, %d decrementing threads, %d waiters arriving before/between/after", g_N, g_ndec, g_nwait);
}

/* field split of big N: init only, as the design says decs are not run to completion */
static void big_init_program(void) {
  static const long Ns[] = { 1L << 20, (1L << 30), (1L << 30) + 1, (1L << 31) - 1 };   /* the API takes an int */
  unsigned i;
  for (i = 0; i < sizeof(Ns) / sizeof(Ns[0]); i++) {
    myth_join_counter_t jc;
    myth_join_counter_init(&jc, 0, Ns[i]);
    long k;
    for (k = 0; k < 1000; k++) myth_join_counter_dec(&jc);
    HK_CHECK((jc.state & jc.state_mask) == 1000 && (jc.state >> jc.n_threads_bits) == 0, "jc:field-split",
             "N=%ld: after 1000 decs state=%ld mask=%ld bits=%d", Ns[i], jc.state, jc.state_mask, jc.n_threads_bits);
  }
}

/* ------------------------------------------------ DAG: node runs after all its predecessors */
#define DAGN 600
static struct dnode { myth_join_counter_t jc; int npred; int pred[8]; int nsucc; int succ[64]; _Atomic int done; } g_dag[DAGN];
static int g_dag_n;
static _Atomic long g_dag_nodes_run;
static void * dag_node(void * a_) {
  int i = (int)(intptr_t)a_, k;
  struct dnode * d = &g_dag[i];
  myth_join_counter_wait(&d->jc);
  for (k = 0; k < d->npred; k++)
    HK_CHECK(atomic_load(&g_dag[d->pred[k]].done) == 1, "jc:dag-predecessor-not-done",
             "node %d ran although predecessor %d has not finished", i, d->pred[k]);
  hk_work(200);
  atomic_store(&d->done, 1);
  atomic_fetch_add(&g_dag_nodes_run, 1);
  for (k = 0; k < d->nsucc; k++) myth_join_counter_dec(&g_dag[d->succ[k]].jc);
  return 0;
}
static void dag_program(hk_rng_t * r) {
  g_dag_n = 50 + (int)hk_below(r, DAGN - 50);
  int i, k;
  for (i = 0; i < g_dag_n; i++) { g_dag[i].npred = 0; g_dag[i].nsucc = 0; atomic_store(&g_dag[i].done, 0); }
  for (i = 1; i < g_dag_n; i++) {
    int np = (int)hk_below(r, 9); if (np > i) np = i;
    for (k = 0; k < np; k++) {
      int p = (int)hk_below(r, (uint64_t)i), dup = 0, j;
      for (j = 0; j < g_dag[i].npred; j++) if (g_dag[i].pred[j] == p) dup = 1;
      if (dup || g_dag[p].nsucc >= 64) continue;
      g_dag[i].pred[g_dag[i].npred++] = p;
      g_dag[p].succ[g_dag[p].nsucc++] = i;
    }
  }
  for (i = 0; i < g_dag_n; i++) myth_join_counter_init(&g_dag[i].jc, 0, g_dag[i].npred);
  myth_thread_t * ids = (myth_thread_t *)malloc(sizeof(myth_thread_t) * (size_t)g_dag_n);
  /* create in reverse so most nodes wait before their predecessors have run */
  int rev = (int)hk_below(r, 2);
  for (i = 0; i < g_dag_n; i++) { int j = rev ? g_dag_n - 1 - i : i; ids[j] = myth_create(dag_node, (void *)(intptr_t)j); }
  for (i = 0; i < g_dag_n; i++) myth_join(ids[i], 0);
  for (i = 0; i < g_dag_n; i++) HK_CHECK(atomic_load(&g_dag[i].done) == 1, "jc:dag-node-lost", "node %d never ran", i);
  free(ids);
  hk_sample("random DAG of %d nodes (in-degree<=8) synchronised by one join counter per node, created %s", g_dag_n, rev ? "sinks first" : "sources first");
}

int main(int argc, char ** argv) {
  hk_init(argc, argv);
  uint64_t seed = hk_seed();
  int progs = (int)hk_arg("progs", 10);
  hkm_setup();
  int p, ndag = 0;
  big_init_program();
  for (p = 0; p < progs; p++) {
    hk_rng_t r; hk_rng_seed(&r, seed, (uint64_t)p);
    if (hk_below(&r, 4) == 0) { dag_program(&r); ndag++; } else counter_program(&r);
  }
  hk_report("programs", progs);
  hk_report("dag_programs", ndag);
  hk_report("dag_nodes_run", atomic_load(&g_dag_nodes_run));
  hk_report("waits", atomic_load(&g_total_waits));
  hk_report("decs", atomic_load(&g_total_decs));
  hk_report("waits_issued_after_last_dec", atomic_load(&g_waits_after));
  hk_report("workers", myth_get_num_workers());
  return hk_finish();
}
