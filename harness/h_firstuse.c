/*
 * h_firstuse --- C15: "initialises itself exactly once, implicitly on first use".
 * One process per case: the FIRST call into the library is the public entry
 * point number fn= (no myth_init before it).  The call must return (no abort,
 * no crash); afterwards exactly one initialisation has run (or none, for entry
 * points that need no runtime, in which case the follow-up create triggers it),
 * the worker count is the requested one, a fork-join works, and myth_fini
 * leaves no worker OS thread behind.
 * args: fn=<k> workers=<n>
 */
#ifndef _GNU_SOURCE
#define _GNU_SOURCE
#endif
#include <dirent.h>
#include <errno.h>
#include "hkm.h"

static int count_tasks(void) {
  DIR * d = opendir("/proc/self/task");
  int n = 0;
  struct dirent * e;
  if (!d) return -1;
  while ((e = readdir(d))) if (e->d_name[0] != '.') n++;
  closedir(d);
  return n;
}

static void once_fn(void) { }
static void * child(void * a) { return (void *)((intptr_t)a + 1); }

static const char * const fn_name[] = {
  "myth_self", "myth_mutex_lock/unlock", "myth_cond_signal", "myth_cond_broadcast", "myth_barrier_wait(n=1)",
  "myth_once", "myth_key_create/setspecific/getspecific", "myth_yield", "myth_usleep",
  "myth_felock_wait_and_lock/mark_and_signal", "myth_join_counter_wait(n=0)", "myth_join_counter_dec/wait(n=1)",
  "myth_testcancel", "myth_getconcurrency", "myth_get_worker_num", "myth_is_myth_worker", "myth_spin_lock/unlock",
  "myth_setcancelstate", "myth_mutex_timedlock", "myth_yield_ex(steal_first)", "myth_sched_yield", "myth_wsapi_rand",
  "myth_equal(self,self)", "myth_get_num_workers", "myth_mutex_trylock", "myth_create", "myth_create_ex(attr)",
  "myth_nanosleep", "myth_key_delete(invalid)", "myth_getspecific(unused key)", "myth_sleep(0)" };
#define NFN ((int)(sizeof(fn_name) / sizeof(fn_name[0])))

int main(int argc, char ** argv) {
  hk_init(argc, argv);
  int fn = (int)hk_arg("fn", 0);
  int nw = (int)hk_arg("workers", 3);
  if (fn < 0 || fn >= NFN) { fprintf(stderr, "fn out of range\n"); return 2; }
  myth_verif_watchdog_enable(0);
  int base = count_tasks();
  char buf[32]; snprintf(buf, sizeof(buf), "%d", nw);
  setenv("MYTH_NUM_WORKERS", buf, 1);
  hk_crumb(fn_name[fn]);
  long rc = 0;
  myth_mutex_t m; myth_cond_t cv; myth_barrier_t b; myth_once_t o; myth_key_t k = -1; myth_felock_t fe; myth_join_counter_t jc; myth_spinlock_t sp;
  memset(&o, 0, sizeof(o));
  switch (fn) {
  case 0: rc = myth_self() ? 0 : 1; break;
  case 1: myth_mutex_init(&m, 0); rc = myth_mutex_lock(&m); rc |= myth_mutex_unlock(&m); break;
  case 2: myth_cond_init(&cv, 0); rc = myth_cond_signal(&cv); break;
  case 3: myth_cond_init(&cv, 0); rc = myth_cond_broadcast(&cv); break;
  case 4: myth_barrier_init(&b, 0, 1); rc = myth_barrier_wait(&b) == MYTH_BARRIER_SERIAL_THREAD ? 0 : 1; break;
  case 5: rc = myth_once(&o, once_fn); break;
  case 6: rc = myth_key_create(&k, 0); rc |= myth_setspecific(k, &k); rc |= (myth_getspecific(k) != &k); break;
  case 7: myth_yield(); break;
  case 8: rc = myth_usleep(100); break;
  case 9: myth_felock_init(&fe, 0); rc = myth_felock_wait_and_lock(&fe, 0); rc |= myth_felock_mark_and_signal(&fe, 1); rc |= (myth_felock_status(&fe) != 1); break;
  case 10: myth_join_counter_init(&jc, 0, 0); rc = myth_join_counter_wait(&jc); break;
  case 11: myth_join_counter_init(&jc, 0, 1); rc = myth_join_counter_dec(&jc); rc |= myth_join_counter_wait(&jc); break;
  case 12: myth_testcancel(); break;
  case 13: rc = myth_getconcurrency() > 0 ? 0 : 1; break;
  case 14: rc = myth_get_worker_num(); HK_CHECK(rc >= 0 && rc < nw, "init:worker-index-range", "first call myth_get_worker_num() = %ld with %d workers", rc, nw); rc = 0; break;
  case 15: (void)myth_is_myth_worker(); break;
  case 16: myth_spin_init(&sp); myth_spin_lock(&sp); myth_spin_unlock(&sp); break;
  case 17: { int old; rc = myth_setcancelstate(0, &old); break; }
  case 18: { struct timespec ts; hkm_abstime_in(&ts, 5); myth_mutex_init(&m, 0); rc = myth_mutex_timedlock(&m, &ts); rc |= myth_mutex_unlock(&m); break; }
  case 19: myth_yield_ex(myth_yield_option_steal_first); break;
  case 20: rc = myth_sched_yield(); break;
  case 21: (void)myth_wsapi_rand(); break;
  case 22: rc = myth_equal(myth_self(), myth_self()) ? 0 : 1; break;
  case 23: rc = myth_get_num_workers() == nw ? 0 : 1; break;
  case 24: myth_mutex_init(&m, 0); rc = myth_mutex_trylock(&m); rc |= myth_mutex_unlock(&m); break;
  case 25: { myth_thread_t t = myth_create(child, (void *)(intptr_t)4); void * res = 0; rc = myth_join(t, &res); rc |= (res != (void *)(intptr_t)5); break; }
  case 26: { myth_thread_attr_t at; myth_thread_attr_init(&at); myth_thread_attr_setstacksize(&at, 65536); myth_thread_t t = 0; rc = myth_create_ex(&t, &at, child, (void *)(intptr_t)6); void * res = 0; rc |= myth_join(t, &res); rc |= (res != (void *)(intptr_t)7); break; }
  case 27: { struct timespec ts = { 0, 100000 }; rc = myth_nanosleep(&ts, 0); break; }
  case 28: rc = myth_key_delete(5) != 0 ? 0 : 1; break;            /* never created: must be refused, not crash */
  case 29: rc = myth_getspecific(7) == 0 ? 0 : 1; break;
  case 30: rc = (long)myth_sleep(0); break;
  }
  HK_CHECK(rc == 0, "init:first-use-result", "first call %s delivered an unexpected result (%ld)", fn_name[fn], rc);
  unsigned long long won = myth_verif_hits("INIT_WON");
  HK_CHECK(won <= 1, "init:initialised-twice", "%llu initialisations after the first call %s", won, fn_name[fn]);
  /* the library is usable afterwards, with the requested worker count, and was initialised exactly once */
  myth_thread_t t = myth_create(child, (void *)(intptr_t)10);
  void * res = 0;
  int jr = myth_join(t, &res);
  HK_CHECK(jr == 0 && res == (void *)(intptr_t)11, "init:first-use-then-create", "create/join after first call %s: rc %d value %p", fn_name[fn], jr, res);
  HK_CHECK(myth_verif_hits("INIT_WON") == 1, "init:initialised-twice", "%llu initialisations after first call %s and one create", (unsigned long long)myth_verif_hits("INIT_WON"), fn_name[fn]);
  HK_CHECK(myth_get_num_workers() == nw, "init:wrong-worker-count", "MYTH_NUM_WORKERS=%d, first call %s: myth_get_num_workers() = %d", nw, fn_name[fn], myth_get_num_workers());
  int tasks = count_tasks();
  HK_CHECK(tasks == base + nw - 1, "init:wrong-number-of-os-threads", "%d OS threads after implicit initialisation, expected %d", tasks, base + nw - 1);
  myth_fini();
  int i;
  for (i = 0; i < 200 && count_tasks() != base; i++) myth_verif_real_usleep(5000);
  HK_CHECK(count_tasks() == base, "fini:worker-left-running", "%d OS threads after myth_fini, %d before the first call", count_tasks(), base);
  hk_sample("first library call %s with MYTH_NUM_WORKERS=%d: returned, %s initialised the runtime, one initialisation in total", fn_name[fn], nw, won ? "it" : "the following create");
  hk_report("first_call_initialised_the_runtime", (long long)won);
  hk_report("entry_point", fn);
  hk_report("workers", nw);
  return hk_finish();
}
