/* hk --- small kit shared by all harness programs */
#pragma once
#ifndef HK_H_
#define HK_H_
#include <stdint.h>
#include <stddef.h>
#include <stdio.h>
#include <stdlib.h>
#include <string.h>
#include "myth_verif_rt.h"

#ifdef __cplusplus
extern "C" {
#endif

typedef struct { uint64_t s; } hk_rng_t;

static inline uint64_t hk_mix(uint64_t x) {
  x += 0x9e3779b97f4a7c15ULL;
  x = (x ^ (x >> 30)) * 0xbf58476d1ce4e5b9ULL;
  x = (x ^ (x >> 27)) * 0x94d049bb133111ebULL;
  return x ^ (x >> 31);
}
static inline void hk_rng_seed(hk_rng_t * r, uint64_t a, uint64_t b) {
  r->s = hk_mix(hk_mix(a) ^ (b * 0x9e3779b97f4a7c15ULL)) | 1;
}
static inline uint64_t hk_rand(hk_rng_t * r) {
  uint64_t x = r->s;
  x ^= x << 13; x ^= x >> 7; x ^= x << 17;
  r->s = x;
  return x * 0x2545F4914F6CDD1DULL;
}
/* uniform in [0,n) ; n > 0 */
static inline uint64_t hk_below(hk_rng_t * r, uint64_t n) { return (hk_rand(r) >> 11) % n; }
/* uniform in [lo,hi] */
static inline long hk_range(hk_rng_t * r, long lo, long hi) { return lo + (long)hk_below(r, (uint64_t)(hi - lo + 1)); }

/* command line: key=value ... ; seed=<n> is mandatory for random harnesses */
void hk_init(int argc, char ** argv);
long hk_arg(const char * name, long dflt);
const char * hk_arg_s(const char * name, const char * dflt);
uint64_t hk_seed(void);

/* summary values reported on the final "VSUM {...}" line */
void hk_report(const char * name, long long value);
void hk_report_s(const char * name, const char * value);
/* a sample case description (kept: first 3) */
void hk_sample(const char * fmt, ...) __attribute__((format(printf, 1, 2)));
/* print VSUM line (harness values + runtime counters) and return 0 */
int hk_finish(void);

/* breadcrumb naming the API call in progress on this OS thread; a crash inside
   it is reported as crash:<signal>:<crumb> (0 clears) */
void hk_crumb(const char * what);

/* busy work of roughly n "units" (not optimised away) */
void hk_work(unsigned n);
/* no-progress watch (plain OS thread): reports key when hk_progress() was not called for secs seconds */
void hk_watch_start(const char * key, int secs);
void hk_progress(void);

#define HK_FAIL(key, ...) myth_verif_violation((key), __VA_ARGS__)
#define HK_CHECK(cond, key, ...) do { if (!(cond)) myth_verif_violation((key), __VA_ARGS__); } while (0)

#ifdef __cplusplus
}
#endif
#endif
