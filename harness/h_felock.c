/*
 * h_felock --- C09: full/empty lock.  Single-slot mailboxes with P producers
 * and C consumers; every produced id consumed exactly once; status and
 * exclusivity asserted under the lock; plain lock/unlock users mixed in.
 * args: seed= progs= nw=
 */
#ifndef _GNU_SOURCE
#define _GNU_SOURCE
#endif
#include "hkm.h"

typedef struct {
  myth_felock_t fe;
  _Atomic int occ;
  volatile long slot;
  int P, C, per, plain;
  _Atomic int * got;
  _Atomic long plain_sections;
} box_t;
static box_t g_box;
static _Atomic long g_items, g_plain;

static inline void enter(box_t * b) {
  int o = atomic_fetch_add(&b->occ, 1);
  HK_CHECK(o == 0, "felock:not-exclusive", "%d other holder(s) under the full/empty lock", o);
}
static inline void leave(box_t * b) {
  int o = atomic_fetch_sub(&b->occ, 1);
  HK_CHECK(o == 1, "felock:not-exclusive", "occupancy %d when leaving", o);
}

static void * producer(hkm_targ_t * a) {
  box_t * b = &g_box;
  hk_rng_t r; hk_rng_seed(&r, a->rseed, 41);
  int i;
  for (i = 0; i < b->per; i++) {
    long id = (long)a->idx * b->per + i;
    int rc = myth_felock_wait_and_lock(&b->fe, 0);   /* wait until empty */
    enter(b);
    HK_CHECK(rc == 0, "felock:rc", "wait_and_lock returned %d", rc);
    int st = myth_felock_status(&b->fe);
    HK_CHECK(st == 0, "felock:wrong-status", "wait_and_lock(0) returned with status %d", st);
    HK_CHECK(b->slot == -1, "felock:item-lost", "producer found item %ld in a mailbox reported empty", b->slot);
    b->slot = id;
    if (hk_below(&r, 6) == 0) myth_yield();
    leave(b);
    myth_felock_mark_and_signal(&b->fe, 1);           /* now full */
    hkm_jitter(&r, 500);
  }
  return 0;
}
static void * consumer(hkm_targ_t * a) {
  box_t * b = &g_box;
  hk_rng_t r; hk_rng_seed(&r, a->rseed, 42);
  long n = (long)(intptr_t)a->user, i;
  for (i = 0; i < n; i++) {
    int rc = myth_felock_wait_and_lock(&b->fe, 1);   /* wait until full */
    enter(b);
    HK_CHECK(rc == 0, "felock:rc", "wait_and_lock returned %d", rc);
    int st = myth_felock_status(&b->fe);
    HK_CHECK(st == 1, "felock:wrong-status", "wait_and_lock(1) returned with status %d", st);
    long id = b->slot;
    HK_CHECK(id >= 0, "felock:item-lost", "consumer found an empty mailbox reported full");
    b->slot = -1;
    leave(b);
    myth_felock_mark_and_signal(&b->fe, 0);
    int g = atomic_fetch_add(&b->got[id], 1);
    HK_CHECK(g == 0, "felock:item-consumed-twice", "item %ld consumed %d times", id, g + 1);
    atomic_fetch_add(&g_items, 1);
    hkm_jitter(&r, 500);
  }
  return 0;
}
/* plain lock/unlock users: they look at the slot but never change the status */
static void * plain_user(hkm_targ_t * a) {
  box_t * b = &g_box;
  hk_rng_t r; hk_rng_seed(&r, a->rseed, 43);
  int i;
  for (i = 0; i < b->per; i++) {
    myth_felock_lock(&b->fe);
    enter(b);
    int st = myth_felock_status(&b->fe);
    HK_CHECK((st == 1) == (b->slot >= 0), "felock:status-slot-mismatch", "status %d but slot %ld", st, b->slot);
    leave(b);
    myth_felock_unlock(&b->fe);
    atomic_fetch_add(&g_plain, 1);
    hkm_jitter(&r, 800);
  }
  return 0;
}
static void * role(void * a_) {
  hkm_targ_t * a = (hkm_targ_t *)a_;
  if (a->idx < g_box.P) return producer(a);
  if (a->idx < g_box.P + g_box.C) return consumer(a);
  return plain_user(a);
}


/* ---- multi-item mailbox: status 1 = "not empty".  Producers take the plain lock, push and mark 1 (often
   while the status already is 1); a consumer waits for 1, pops and marks 1 again if items remain, 0 otherwise.
   Several consumers may sleep for the same status; every mark_and_signal(1) has to let one of them proceed. */
typedef struct {
  myth_felock_t fe;
  _Atomic int occ;
  long * q; long head, tail, cap;
  int P, C, per;
  _Atomic int * got;
} bag_t;
static bag_t g_bag;
static _Atomic long g_bag_items, g_marks_unchanged, g_bag_max_len;

static void * bag_producer(hkm_targ_t * a) {
  bag_t * b = &g_bag;
  hk_rng_t r; hk_rng_seed(&r, a->rseed, 44);
  int i;
  for (i = 0; i < b->per; i++) {
    long id = (long)a->idx * b->per + i;
    myth_felock_lock(&b->fe);
    int o = atomic_fetch_add(&b->occ, 1);
    HK_CHECK(o == 0, "felock:not-exclusive", "%d other holder(s) under the full/empty lock", o);
    int st = myth_felock_status(&b->fe);
    HK_CHECK((st == 1) == (b->tail > b->head), "felock:status-slot-mismatch", "status %d but %ld items queued", st, b->tail - b->head);
    b->q[b->tail++ % b->cap] = id;
    if (b->tail - b->head > atomic_load(&g_bag_max_len)) atomic_store(&g_bag_max_len, b->tail - b->head);
    if (st == 1) atomic_fetch_add(&g_marks_unchanged, 1);
    atomic_fetch_sub(&b->occ, 1);
    myth_felock_mark_and_signal(&b->fe, 1);
    hkm_jitter(&r, 300);
  }
  return 0;
}
static void * bag_consumer(hkm_targ_t * a) {
  bag_t * b = &g_bag;
  hk_rng_t r; hk_rng_seed(&r, a->rseed, 45);
  long n = (long)(intptr_t)a->user, i;
  for (i = 0; i < n; i++) {
    int rc = myth_felock_wait_and_lock(&b->fe, 1);
    int o = atomic_fetch_add(&b->occ, 1);
    HK_CHECK(o == 0, "felock:not-exclusive", "%d other holder(s) under the full/empty lock", o);
    HK_CHECK(rc == 0, "felock:rc", "wait_and_lock returned %d", rc);
    int st = myth_felock_status(&b->fe);
    HK_CHECK(st == 1, "felock:wrong-status", "wait_and_lock(1) returned with status %d", st);
    HK_CHECK(b->tail > b->head, "felock:item-lost", "consumer found an empty queue reported non-empty");
    long id = b->q[b->head++ % b->cap];
    int more = b->tail > b->head;
    if (more) atomic_fetch_add(&g_marks_unchanged, 1);
    atomic_fetch_sub(&b->occ, 1);
    myth_felock_mark_and_signal(&b->fe, more ? 1 : 0);
    int g = atomic_fetch_add(&b->got[id], 1);
    HK_CHECK(g == 0, "felock:item-consumed-twice", "item %ld consumed %d times", id, g + 1);
    atomic_fetch_add(&g_bag_items, 1);
    hkm_jitter(&r, 500);
  }
  return 0;
}
static void * bag_role(void * a_) {
  hkm_targ_t * a = (hkm_targ_t *)a_;
  return a->idx < g_bag.P ? bag_producer(a) : bag_consumer(a);
}
static void bag_program(hk_rng_t * r, int sample) {
  bag_t * b = &g_bag;
  myth_felock_init(&b->fe, 0);
  atomic_store(&b->occ, 0);
  b->P = 1 + (int)hk_below(r, 6); b->C = 2 + (int)hk_below(r, 7);
  b->per = 30 + (int)hk_below(r, 300);
  long total = (long)b->P * b->per;
  b->cap = total + 1; b->head = b->tail = 0;
  b->q = (long *)calloc((size_t)b->cap, sizeof(long));
  b->got = (_Atomic int *)calloc((size_t)total, sizeof(_Atomic int));
  int n = b->P + b->C, i;
  hkm_targ_t * args = (hkm_targ_t *)calloc((size_t)n, sizeof(hkm_targ_t));
  /* consumers first in creation order half of the time, so that several of them are asleep before anything is produced */
  for (i = 0; i < n; i++) {
    args[i].idx = i; args[i].rseed = hk_rand(r);
    if (i >= b->P) { int ci = i - b->P; long share = total / b->C + (ci < total % b->C ? 1 : 0); args[i].user = (void *)(intptr_t)share; }
  }
  if (hk_below(r, 2)) {
    hkm_targ_t * rev = (hkm_targ_t *)calloc((size_t)n, sizeof(hkm_targ_t));
    for (i = 0; i < n; i++) rev[i] = args[n - 1 - i];
    hkm_run_threads(n, bag_role, rev, 0);
    free(rev);
  } else hkm_run_threads(n, bag_role, args, 0);
  for (i = 0; i < total; i++) HK_CHECK(atomic_load(&b->got[i]) == 1, "felock:item-lost", "item %d consumed %d times", i, atomic_load(&b->got[i]));
  HK_CHECK(b->head == b->tail && myth_felock_status(&b->fe) == 0, "felock:item-lost", "queue not empty (or status not 0) at the end");
  myth_felock_destroy(&b->fe);
  free(b->q); free((void *)b->got); free(args);
  if (sample) hk_sample("multi-item mailbox: %d producers x %d items (plain lock + mark 1), %d consumers (wait for 1, mark 1 while items remain)", b->P, b->per, b->C);
}

int main(int argc, char ** argv) {
  hk_init(argc, argv);
  uint64_t seed = hk_seed();
  int progs = (int)hk_arg("progs", 6);
  hkm_setup();
  int p;
  for (p = 0; p < progs; p++) {
    hk_rng_t r; hk_rng_seed(&r, seed, (uint64_t)p);
    if (hk_below(&r, 3) == 0) { bag_program(&r, p < 4); continue; }
    box_t * b = &g_box;
    myth_felock_init(&b->fe, 0);
    atomic_store(&b->occ, 0);
    b->slot = -1;
    b->P = 1 + (int)hk_below(&r, 8); b->C = 1 + (int)hk_below(&r, 8);
    b->plain = (int)hk_below(&r, 4);
    b->per = 30 + (int)hk_below(&r, 400);
    long total = (long)b->P * b->per;
    b->got = (_Atomic int *)calloc((size_t)total, sizeof(_Atomic int));
    int n = b->P + b->C + b->plain, i;
    hkm_targ_t * args = (hkm_targ_t *)calloc((size_t)n, sizeof(hkm_targ_t));
    for (i = 0; i < n; i++) {
      args[i].idx = i; args[i].rseed = hk_rand(&r);
      if (i >= b->P && i < b->P + b->C) { int ci = i - b->P; long share = total / b->C + (ci < total % b->C ? 1 : 0); args[i].user = (void *)(intptr_t)share; }
    }
    hkm_run_threads(n, role, args, 0);
    for (i = 0; i < total; i++) HK_CHECK(atomic_load(&b->got[i]) == 1, "felock:item-lost", "item %d consumed %d times", i, atomic_load(&b->got[i]));
    HK_CHECK(b->slot == -1 && myth_felock_status(&b->fe) == 0, "felock:item-lost", "mailbox not empty at the end");
    myth_felock_destroy(&b->fe);
    free((void *)b->got); free(args);
    if (p < 3) hk_sample("mailbox: %d producers x %d items, %d consumers, %d plain lock/unlock users", b->P, b->per, b->C, b->plain);
  }
  hk_report("programs", progs);
  hk_report("items", atomic_load(&g_items));
  hk_report("multi_item_mailbox_items", atomic_load(&g_bag_items));
  hk_report("marks_that_left_the_status_unchanged", atomic_load(&g_marks_unchanged));
  hk_report("longest_multi_item_queue", atomic_load(&g_bag_max_len));
  hk_report("plain_sections", atomic_load(&g_plain));
  hk_report("workers", myth_get_num_workers());
  return hk_finish();
}
