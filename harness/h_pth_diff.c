/*
 * h_pth_diff --- C16: a parametrised, determinate pthread program.
 * Plain POSIX threads only (no myth header, no hook runtime calls): the same
 * binary is run with its pthread calls going to MassiveThreads (ld --wrap or
 * LD_PRELOAD) and to the system library; stdout and exit status must be equal.
 * Output = order-independent aggregates only.
 * usage: h_pth_diff <seed> [sections-mask]
 */
#ifndef _GNU_SOURCE
#define _GNU_SOURCE
#endif
#include <errno.h>
#include <pthread.h>
#include <sched.h>
#include <stdint.h>
#include <stdio.h>
#include <stdlib.h>
#include <string.h>
#include <unistd.h>

typedef struct { uint64_t s; } rng_t;
static uint64_t mix(uint64_t x) { x += 0x9e3779b97f4a7c15ULL; x = (x ^ (x >> 30)) * 0xbf58476d1ce4e5b9ULL; x = (x ^ (x >> 27)) * 0x94d049bb133111ebULL; return x ^ (x >> 31); }
static void rseed(rng_t * r, uint64_t a, uint64_t b) { r->s = mix(mix(a) ^ (b * 0x9e3779b97f4a7c15ULL)) | 1; }
static uint64_t rnd(rng_t * r) { uint64_t x = r->s; x ^= x << 13; x ^= x >> 7; x ^= x << 17; r->s = x; return x * 0x2545F4914F6CDD1DULL; }
static uint64_t below(rng_t * r, uint64_t n) { return (rnd(r) >> 11) % n; }

#define CHECK(c, ...) do { if (!(c)) { printf("CHECK FAILED: " __VA_ARGS__); printf("\n"); fflush(stdout); exit(3); } } while (0)

/* paint the stack region an attribute object is about to occupy */
static __attribute__((noinline)) void paint(unsigned char b) { volatile unsigned char j[1024]; size_t i; for (i = 0; i < sizeof(j); i++) j[i] = b; }

/* ---------------------------------------------------------------- 1: spawn tree */
typedef struct tnode { uint64_t seed; int depth; int how; long ret; pthread_t id; volatile int id_set; } tnode_t;
static pthread_mutex_t g_det_m = PTHREAD_MUTEX_INITIALIZER;
static pthread_cond_t g_det_c = PTHREAD_COND_INITIALIZER;
static long g_det_pending, g_det_sum, g_tree_nodes, g_self_ok;
static int g_max_depth, g_fan;

static void * tree_fn(void * a_) {
  tnode_t * n = (tnode_t *)a_;
  rng_t r; rseed(&r, n->seed, 1);
  long sum = (long)(n->seed % 1000);
  int kids = n->depth < g_max_depth ? (int)below(&r, (uint64_t)g_fan + 1) : 0, i;
  tnode_t * c = (tnode_t *)calloc((size_t)kids + 1, sizeof(tnode_t));
  pthread_t self = pthread_self();
  CHECK(pthread_equal(self, pthread_self()), "pthread_self not stable");
  for (i = 0; i < kids; i++) {
    c[i].seed = rnd(&r); c[i].depth = n->depth + 1; c[i].how = (int)below(&r, 5);
    pthread_attr_t at;
    int rc;
    switch (c[i].how) {
    case 0: rc = pthread_create(&c[i].id, 0, tree_fn, &c[i]); break;
    case 1: paint(0xff); pthread_attr_init(&at); rc = pthread_create(&c[i].id, &at, tree_fn, &c[i]); pthread_attr_destroy(&at); break;
    case 2: paint(0x5a); pthread_attr_init(&at); pthread_attr_setstacksize(&at, (size_t)(256 + 256 * below(&r, 4)) * 1024); rc = pthread_create(&c[i].id, &at, tree_fn, &c[i]); pthread_attr_destroy(&at); break;
    case 3: /* detached through the attribute */
      paint(0x01); pthread_attr_init(&at); pthread_attr_setdetachstate(&at, PTHREAD_CREATE_DETACHED);
      pthread_mutex_lock(&g_det_m); g_det_pending++; pthread_mutex_unlock(&g_det_m);
      rc = pthread_create(&c[i].id, &at, tree_fn, &c[i]); pthread_attr_destroy(&at); break;
    default: /* detached after creation */
      pthread_mutex_lock(&g_det_m); g_det_pending++; pthread_mutex_unlock(&g_det_m);
      rc = pthread_create(&c[i].id, 0, tree_fn, &c[i]);
      if (rc == 0) CHECK(pthread_detach(c[i].id) == 0, "pthread_detach failed");
      break;
    }
    CHECK(rc == 0, "pthread_create returned %d", rc);
  }
  for (i = 0; i < kids; i++) {
    if (c[i].how <= 2) {
      void * res = 0;
      CHECK(pthread_join(c[i].id, &res) == 0, "pthread_join failed");
      sum += (long)(intptr_t)res;
    }
  }
  __sync_fetch_and_add(&g_tree_nodes, 1);
  if (n->how >= 3) {
    /* detached: the children's storage must outlive them -> they were joined above or are detached themselves;
       report through the shared accumulator */
    pthread_mutex_lock(&g_det_m);
    g_det_sum += sum; g_det_pending--;
    if (g_det_pending == 0) pthread_cond_broadcast(&g_det_c);
    pthread_mutex_unlock(&g_det_m);
    /* detached children of this node keep using c[]: leak it on purpose */
    return 0;
  }
  if (n->seed & 1) pthread_exit((void *)(intptr_t)sum);
  return (void *)(intptr_t)sum;
}

static void section_tree(uint64_t seed) {
  rng_t r; rseed(&r, seed, 11);
  g_max_depth = 2 + (int)below(&r, 3); g_fan = 1 + (int)below(&r, 4);
  g_det_pending = 0; g_det_sum = 0; g_tree_nodes = 0;
  tnode_t root; memset(&root, 0, sizeof(root));
  root.seed = rnd(&r) & ~1ULL; root.depth = 0; root.how = 0;
  pthread_t t;
  CHECK(pthread_create(&t, 0, tree_fn, &root) == 0, "create root");
  void * res = 0;
  CHECK(pthread_join(t, &res) == 0, "join root");
  pthread_mutex_lock(&g_det_m);
  while (g_det_pending > 0) pthread_cond_wait(&g_det_c, &g_det_m);
  long ds = g_det_sum;
  pthread_mutex_unlock(&g_det_m);
  printf("tree: depth<=%d fan<=%d nodes=%ld joined_sum=%ld detached_sum=%ld\n", g_max_depth, g_fan, g_tree_nodes, (long)(intptr_t)res, ds);
}

/* ---------------------------------------------------------------- 2: counters under mutexes (dynamic + static init) */
/* a pool of statically initialised mutexes: every round uses four that nobody has touched yet, so that the first
   use of each is raced by all threads released from the barrier */
static pthread_mutex_t g_static_pool[512] = { [0 ... 511] = PTHREAD_MUTEX_INITIALIZER };
static int g_static_next;
static pthread_mutex_t * g_static_m;
static pthread_mutex_t g_dyn_m[4];
static long g_cnt[8];
static pthread_barrier_t g_start_bar;
static int g_iters;
static void * counter_fn(void * a_) {
  rng_t r; rseed(&r, (uint64_t)(intptr_t)a_, 2);
  int i;
  pthread_barrier_wait(&g_start_bar);      /* released together: first use of the static mutexes by all at once */
  for (i = 0; i < g_iters; i++) {
    int k = (int)below(&r, 8);
    pthread_mutex_t * m = k < 4 ? &g_static_m[k] : &g_dyn_m[k - 4];
    if (below(&r, 4) == 0) { while (pthread_mutex_trylock(m) != 0) sched_yield(); }
    else pthread_mutex_lock(m);
    long v = g_cnt[k];
    if (below(&r, 16) == 0) sched_yield();
    g_cnt[k] = v + 1 + k;
    pthread_mutex_unlock(m);
  }
  return 0;
}
static void section_counters(uint64_t seed) {
  rng_t r; rseed(&r, seed, 12);
  int nt = 2 + (int)below(&r, 31), i;
  g_iters = 200 + (int)below(&r, 800);
  memset(g_cnt, 0, sizeof(g_cnt));
  g_static_m = &g_static_pool[g_static_next]; g_static_next = (g_static_next + 4) % 512;
  for (i = 0; i < 4; i++) pthread_mutex_init(&g_dyn_m[i], 0);
  pthread_barrier_init(&g_start_bar, 0, (unsigned)nt);
  pthread_t * t = (pthread_t *)calloc((size_t)nt, sizeof(pthread_t));
  for (i = 0; i < nt; i++) CHECK(pthread_create(&t[i], 0, counter_fn, (void *)(intptr_t)(seed + (uint64_t)i)) == 0, "create");
  for (i = 0; i < nt; i++) pthread_join(t[i], 0);
  long tot = 0, w = 0;
  for (i = 0; i < 8; i++) { tot += g_cnt[i] / (1 + i); w += g_cnt[i]; }
  printf("counters: threads=%d iters=%d increments=%ld weighted=%ld expected=%ld\n", nt, g_iters, tot, w, (long)nt * g_iters);
  pthread_barrier_destroy(&g_start_bar);
  for (i = 0; i < 4; i++) pthread_mutex_destroy(&g_dyn_m[i]);
  free(t);
}

/* ---------------------------------------------------------------- 3: bounded buffer over condition variables */
static struct { pthread_mutex_t m; pthread_cond_t nf, ne; long buf[8]; int cap, n, h, t; long P, C, per; long sum, xr, cnt; } bb;
static void * bb_prod(void * a_) {
  long id = (long)(intptr_t)a_, i;
  for (i = 0; i < bb.per; i++) {
    pthread_mutex_lock(&bb.m);
    while (bb.n == bb.cap) pthread_cond_wait(&bb.nf, &bb.m);
    bb.buf[bb.t] = id * 100000 + i + 1; bb.t = (bb.t + 1) % bb.cap; bb.n++;
    pthread_cond_signal(&bb.ne);
    pthread_mutex_unlock(&bb.m);
  }
  return 0;
}
static void * bb_cons(void * a_) {
  long n = (long)(intptr_t)a_, i;
  for (i = 0; i < n; i++) {
    pthread_mutex_lock(&bb.m);
    while (bb.n == 0) pthread_cond_wait(&bb.ne, &bb.m);
    long v = bb.buf[bb.h]; bb.h = (bb.h + 1) % bb.cap; bb.n--;
    bb.sum += v; bb.xr ^= v * 2654435761L; bb.cnt++;
    if (i & 1) pthread_cond_signal(&bb.nf); else pthread_cond_broadcast(&bb.nf);
    pthread_mutex_unlock(&bb.m);
  }
  return 0;
}
static void section_bb(uint64_t seed) {
  rng_t r; rseed(&r, seed, 13);
  memset(&bb, 0, sizeof(bb));
  pthread_mutex_init(&bb.m, 0); pthread_cond_init(&bb.nf, 0); pthread_cond_init(&bb.ne, 0);
  bb.cap = 1 + (int)below(&r, 8); bb.P = 1 + (long)below(&r, 5); bb.C = 1 + (long)below(&r, 5); bb.per = 50 + (long)below(&r, 400);
  long total = bb.P * bb.per, i;
  pthread_t t[16];
  for (i = 0; i < bb.P; i++) CHECK(pthread_create(&t[i], 0, bb_prod, (void *)(intptr_t)i) == 0, "create");
  for (i = 0; i < bb.C; i++) { long share = total / bb.C + (i < total % bb.C ? 1 : 0); CHECK(pthread_create(&t[bb.P + i], 0, bb_cons, (void *)(intptr_t)share) == 0, "create"); }
  for (i = 0; i < bb.P + bb.C; i++) pthread_join(t[i], 0);
  printf("bounded-buffer: cap=%d P=%ld C=%ld items=%ld sum=%ld xor=%ld left=%d\n", bb.cap, bb.P, bb.C, bb.cnt, bb.sum, bb.xr, bb.n);
  pthread_mutex_destroy(&bb.m); pthread_cond_destroy(&bb.nf); pthread_cond_destroy(&bb.ne);
}

/* ---------------------------------------------------------------- 4: barrier phases + spin lock + once */
static pthread_barrier_t g_bar;
static pthread_spinlock_t g_spin;
static pthread_once_t g_once = PTHREAD_ONCE_INIT;
static long g_once_runs, g_spin_cnt, g_spin_rc_bad;
static int g_phases, g_bn;
static long g_serial[64], g_phase_sum[64];
static void once_fn(void) { __sync_fetch_and_add(&g_once_runs, 1); sched_yield(); }
/* one fresh control per phase: all threads leave the barrier of the previous phase together and call pthread_once on it;
   the routine finishes late (yields first), every caller must find it completed when its own call returns */
static pthread_once_t g_ponce[64];
static volatile long g_pdone[64], g_pruns[64];
static int g_cur_phase_for_once;
static void phase_once_fn(void) {
  int p = g_cur_phase_for_once;
  __sync_fetch_and_add(&g_pruns[p], 1);
  sched_yield(); sched_yield();
  g_pdone[p] = 1;
}
static void * bar_fn(void * a_) {
  long me = (long)(intptr_t)a_;
  int p;
  for (p = 0; p < g_phases; p++) {
    pthread_once(&g_once, once_fn);
    CHECK(g_once_runs == 1, "once routine ran %ld times", g_once_runs);
    g_cur_phase_for_once = p;       /* same value written by everybody of this phase */
    CHECK(pthread_once(&g_ponce[p], phase_once_fn) == 0, "pthread_once failed");
    CHECK(g_pdone[p] == 1 && g_pruns[p] == 1, "pthread_once returned in phase %d while its routine had run %ld times and completed=%ld", p, g_pruns[p], g_pdone[p]);
    if ((me + p) & 1) { int rc = pthread_spin_lock(&g_spin); if (rc != 0) __sync_fetch_and_add(&g_spin_rc_bad, 1); }
    else { int rc; while ((rc = pthread_spin_trylock(&g_spin)) != 0) { if (rc != EBUSY) __sync_fetch_and_add(&g_spin_rc_bad, 1); sched_yield(); } }
    g_spin_cnt++; g_phase_sum[p] += me + p;
    if (pthread_spin_unlock(&g_spin) != 0) __sync_fetch_and_add(&g_spin_rc_bad, 1);
    int rv = pthread_barrier_wait(&g_bar);
    if (rv == PTHREAD_BARRIER_SERIAL_THREAD) __sync_fetch_and_add(&g_serial[p], 1);
    else CHECK(rv == 0, "barrier_wait returned %d", rv);
    /* everybody added to this phase before anybody passed */
    CHECK(g_phase_sum[p] == (long)g_bn * (g_bn - 1) / 2 + (long)g_bn * p, "phase %d sum %ld seen after the barrier", p, g_phase_sum[p]);
    if ((me + p) % 3 == 0) usleep(50);
  }
  return 0;
}
static void section_barrier(uint64_t seed) {
  rng_t r; rseed(&r, seed, 14);
  g_bn = 1 + (int)below(&r, 24); g_phases = 1 + (int)below(&r, 40);
  memset(g_serial, 0, sizeof(g_serial)); memset(g_phase_sum, 0, sizeof(g_phase_sum)); g_spin_cnt = 0; g_spin_rc_bad = 0; g_once_runs = 0;
  pthread_once_t fresh = PTHREAD_ONCE_INIT; g_once = fresh;
  { int q; for (q = 0; q < 64; q++) { g_ponce[q] = fresh; g_pdone[q] = 0; g_pruns[q] = 0; } }
  pthread_barrier_init(&g_bar, 0, (unsigned)g_bn);
  pthread_spin_init(&g_spin, PTHREAD_PROCESS_PRIVATE);
  pthread_t t[32];
  long i;
  for (i = 0; i < g_bn; i++) CHECK(pthread_create(&t[i], 0, bar_fn, (void *)(intptr_t)i) == 0, "create");
  for (i = 0; i < g_bn; i++) pthread_join(t[i], 0);
  long serial_ok = 0;
  for (i = 0; i < g_phases; i++) serial_ok += (g_serial[i] == 1);
  printf("barrier: n=%d phases=%d phases_with_exactly_one_serial=%ld spin_count=%ld spin_unexpected_rc=%ld once_runs=%ld\n", g_bn, g_phases, serial_ok, g_spin_cnt, g_spin_rc_bad, g_once_runs);
  pthread_barrier_destroy(&g_bar); pthread_spin_destroy(&g_spin);
}

/* ---------------------------------------------------------------- 5: thread-specific keys with destructors */
#define NKEYS 24
static pthread_key_t g_keys[NKEYS];
static long g_dtor_calls, g_dtor_sum;
static void key_dtor(void * v) { if (!v) return; __sync_fetch_and_add(&g_dtor_calls, 1); __sync_fetch_and_add(&g_dtor_sum, (long)(intptr_t)v); }
static void * key_fn(void * a_) {
  rng_t r; rseed(&r, (uint64_t)(intptr_t)a_, 5);
  int i;
  long mine = 0;
  for (i = 0; i < NKEYS; i++) {
    CHECK(pthread_getspecific(g_keys[i]) == 0, "fresh thread sees a value under key %d", i);
    if (below(&r, 2)) { long v = 1 + (long)below(&r, 1000); CHECK(pthread_setspecific(g_keys[i], (void *)(intptr_t)v) == 0, "setspecific"); mine += v; }
  }
  sched_yield();
  long back = 0;
  for (i = 0; i < NKEYS; i++) back += (long)(intptr_t)pthread_getspecific(g_keys[i]);
  CHECK(back == mine, "thread-specific values changed: %ld != %ld", back, mine);
  if ((uintptr_t)a_ & 1) pthread_exit((void *)(intptr_t)mine);
  return (void *)(intptr_t)mine;
}
static void section_keys(uint64_t seed) {
  rng_t r; rseed(&r, seed, 15);
  int nt = 1 + (int)below(&r, 24), i;
  g_dtor_calls = 0; g_dtor_sum = 0;
  for (i = 0; i < NKEYS; i++) CHECK(pthread_key_create(&g_keys[i], (i % 3) ? key_dtor : 0) == 0, "key_create");
  pthread_t t[32];
  long sum = 0;
  for (i = 0; i < nt; i++) CHECK(pthread_create(&t[i], 0, key_fn, (void *)(intptr_t)(seed * 7 + (uint64_t)i)) == 0, "create");
  for (i = 0; i < nt; i++) { void * res = 0; pthread_join(t[i], &res); sum += (long)(intptr_t)res; }
  /* expected destructor calls: recompute from the same seeds */
  long exp_calls = 0, exp_sum = 0;
  for (i = 0; i < nt; i++) {
    rng_t q; rseed(&q, seed * 7 + (uint64_t)i, 5);
    int k;
    for (k = 0; k < NKEYS; k++) if (below(&q, 2)) { long v = 1 + (long)below(&q, 1000); if (k % 3) { exp_calls++; exp_sum += v; } }
  }
  printf("keys: threads=%d stored_sum=%ld destructor_calls=%ld destructor_sum=%ld expected_calls=%ld expected_sum=%ld\n", nt, sum, g_dtor_calls, g_dtor_sum, exp_calls, exp_sum);
  for (i = 0; i < NKEYS; i++) pthread_key_delete(g_keys[i]);
}


/* ---------------------------------------------------------------- 6: return codes of a determinate single-threaded call sequence */
static void * rc_fn(void * a) { return a; }
static void rc_dtor(void * v) { (void)v; }
static void rc_once(void) { }
static void section_rc(uint64_t seed) {
  (void)seed;
  int a[8];
  pthread_mutex_t m;
  a[0] = pthread_mutex_init(&m, 0); a[1] = pthread_mutex_trylock(&m); a[2] = pthread_mutex_trylock(&m) == EBUSY;
  a[3] = pthread_mutex_unlock(&m); a[4] = pthread_mutex_lock(&m); a[5] = pthread_mutex_unlock(&m); a[6] = pthread_mutex_destroy(&m);
  printf("rc mutex: init=%d try_free=%d try_held_is_EBUSY=%d unlock=%d lock=%d unlock=%d destroy=%d\n", a[0], a[1], a[2], a[3], a[4], a[5], a[6]);
  { pthread_mutex_t sm = PTHREAD_MUTEX_INITIALIZER;
    a[0] = pthread_mutex_trylock(&sm); a[1] = pthread_mutex_trylock(&sm) == EBUSY; a[2] = pthread_mutex_unlock(&sm); a[3] = pthread_mutex_lock(&sm); a[4] = pthread_mutex_unlock(&sm);
    printf("rc static-mutex: try_free=%d try_held_is_EBUSY=%d unlock=%d lock=%d unlock=%d\n", a[0], a[1], a[2], a[3], a[4]); }
  pthread_spinlock_t sp;
  a[0] = pthread_spin_init(&sp, PTHREAD_PROCESS_PRIVATE); a[1] = pthread_spin_trylock(&sp); a[2] = pthread_spin_trylock(&sp) == EBUSY;
  a[3] = pthread_spin_unlock(&sp); a[4] = pthread_spin_lock(&sp); a[5] = pthread_spin_unlock(&sp); a[6] = pthread_spin_destroy(&sp);
  printf("rc spin: init=%d try_free=%d try_held_is_EBUSY=%d unlock=%d lock=%d unlock=%d destroy=%d\n", a[0], a[1], a[2], a[3], a[4], a[5], a[6]);
  pthread_cond_t c;
  a[0] = pthread_cond_init(&c, 0); a[1] = pthread_cond_signal(&c); a[2] = pthread_cond_broadcast(&c); a[3] = pthread_cond_destroy(&c);
  printf("rc cond: init=%d signal_nobody=%d broadcast_nobody=%d destroy=%d\n", a[0], a[1], a[2], a[3]);
  pthread_barrier_t b;
  a[0] = pthread_barrier_init(&b, 0, 1); a[1] = pthread_barrier_wait(&b) == PTHREAD_BARRIER_SERIAL_THREAD; a[2] = pthread_barrier_wait(&b) == PTHREAD_BARRIER_SERIAL_THREAD; a[3] = pthread_barrier_destroy(&b);
  printf("rc barrier1: init=%d wait_is_serial=%d again=%d destroy=%d\n", a[0], a[1], a[2], a[3]);
  pthread_key_t k;
  a[0] = pthread_key_create(&k, rc_dtor); a[1] = pthread_getspecific(k) == 0; a[2] = pthread_setspecific(k, &a); a[3] = pthread_getspecific(k) == (void *)&a;
  a[4] = pthread_setspecific(k, 0); a[5] = pthread_key_delete(k);
  printf("rc key: create=%d fresh_is_null=%d set=%d get_matches=%d clear=%d delete=%d\n", a[0], a[1], a[2], a[3], a[4], a[5]);
  pthread_once_t o = PTHREAD_ONCE_INIT;
  a[0] = pthread_once(&o, rc_once); a[1] = pthread_once(&o, rc_once);
  printf("rc once: first=%d second=%d\n", a[0], a[1]);
  pthread_t t; void * res = 0;
  a[0] = pthread_create(&t, 0, rc_fn, (void *)0x77); a[1] = pthread_join(t, &res); a[2] = res == (void *)0x77;
  a[3] = pthread_create(&t, 0, rc_fn, 0); a[4] = pthread_detach(t); a[5] = pthread_equal(pthread_self(), pthread_self()) != 0;
  pthread_attr_t at;
  a[6] = pthread_attr_init(&at); a[7] = pthread_attr_destroy(&at);
  printf("rc thread: create=%d join=%d value_ok=%d create=%d detach=%d self_equal=%d attr_init=%d attr_destroy=%d\n", a[0], a[1], a[2], a[3], a[4], a[5], a[6], a[7]);
  usleep(1000);   /* let the detached thread finish */
}

int main(int argc, char ** argv) {
  uint64_t seed = argc > 1 ? strtoull(argv[1], 0, 10) : 1;
  unsigned mask = argc > 2 ? (unsigned)strtoul(argv[2], 0, 0) : 0x3f;
  setvbuf(stdout, 0, _IOLBF, 0);
  rng_t r; rseed(&r, seed, 99);
  int rounds = 1 + (int)below(&r, 3), k;
  if (mask == 2) rounds = 8 + (int)below(&r, 24);   /* counters only: many first-use races on fresh static mutexes */
  for (k = 0; k < rounds; k++) {
    if (mask & 1) section_tree(rnd(&r));
    if (mask & 2) section_counters(rnd(&r));
    if (mask & 4) section_bb(rnd(&r));
    if (mask & 8) section_barrier(rnd(&r));
    if (mask & 16) section_keys(rnd(&r));
    if (mask & 32) section_rc(rnd(&r));
  }
  printf("done\n");
  return 0;
}
