/*
 * h_time --- C20: sleeping and timed waits respect their deadlines.
 * mode=real : CLOCK_REALTIME inequalities around every call, EINVAL cases,
 *             siblings progress during a sleep, multi-worker noise.
 * mode=virtual : the harness owns the clock (hr_gettime hook): deadlines are hit
 *             exactly; "time-out at the first reading strictly greater than the
 *             deadline, never before; success at any attempt before it" is
 *             checked reading by reading (1 worker, deterministic).
 * args: seed= mode= cases= nw=
 */
#ifndef _GNU_SOURCE
#define _GNU_SOURCE
#endif
#include <errno.h>
#include <limits.h>
#include "hkm.h"

static _Atomic long g_sleeps, g_einval, g_timedlock_to, g_timedlock_ok, g_timedjoin_to, g_timedjoin_ok, g_sibling_checks, g_vcases;

static inline int ts_gt(const struct timespec * a, const struct timespec * b) {
  return a->tv_sec > b->tv_sec || (a->tv_sec == b->tv_sec && a->tv_nsec > b->tv_nsec);
}
static inline void ts_add(const struct timespec * a, long sec, long nsec, struct timespec * c) {
  long ns = a->tv_nsec + nsec;
  c->tv_sec = a->tv_sec + sec + ns / 1000000000L;
  c->tv_nsec = ns % 1000000000L;
}
static inline void ts_sub_step(const struct timespec * a, long ssec, long snsec, struct timespec * c) {
  long ns = a->tv_nsec - snsec, s = a->tv_sec - ssec;
  if (ns < 0) { ns += 1000000000L; s -= 1; }
  c->tv_sec = s; c->tv_nsec = ns;
}

/* ---------------------------------------------------------------- real clock */
static _Atomic long g_sib_counter;
static _Atomic int g_sib_stop;
static void * sibling(void * a) { (void)a; while (!atomic_load(&g_sib_stop)) { atomic_fetch_add(&g_sib_counter, 1); myth_yield(); } return 0; }

static void real_sleep_cases(hk_rng_t * r, int n) {
  int i;
  for (i = 0; i < n; i++) {
    struct timespec t0, t1, req, want;
    int which = (int)hk_below(r, 3);
    long us = (long[]){ 0, 1, 7, 100, 999, 1000, 2500, 20000 }[hk_below(r, 8)];
    req.tv_sec = 0; req.tv_nsec = us * 1000;
    if (hk_below(r, 40) == 0) { which = 2; us = 1000000; req.tv_sec = 1; req.tv_nsec = 0; }
    long c0 = atomic_load(&g_sib_counter);
    clock_gettime(CLOCK_REALTIME, &t0);
    int rc;
    if (which == 0) rc = myth_usleep((useconds_t)us);
    else if (which == 1) rc = myth_nanosleep(&req, 0);
    else { rc = (int)myth_sleep((unsigned)req.tv_sec); us = req.tv_sec * 1000000L; req.tv_nsec = 0; }
    clock_gettime(CLOCK_REALTIME, &t1);
    HK_CHECK(rc == 0, "time:sleep-rc", "sleep function %d returned %d for a valid duration", which, rc);
    ts_add(&t0, which == 2 ? req.tv_sec : 0, which == 2 ? 0 : us * 1000, &want);
    HK_CHECK(!ts_gt(&want, &t1), "time:sleep-returned-early", "sleep function %d asked for %ld us returned after only %ld ns",
             which, us, (t1.tv_sec - t0.tv_sec) * 1000000000L + (t1.tv_nsec - t0.tv_nsec));
    if (us >= 1000 && myth_get_num_workers() == 1) {
      /* one worker: every iteration of the sleep loop yields to the sibling on the same OS thread, so its
         progress does not depend on the OS scheduler (with more workers the sibling's OS thread may simply
         be descheduled for longer than the sleep on a loaded machine) */
      long c1 = atomic_load(&g_sib_counter);
      HK_CHECK(c1 > c0, "time:sleep-occupies-worker", "a runnable sibling made no progress during a %ld us sleep", us);
      atomic_fetch_add(&g_sibling_checks, 1);
    }
    atomic_fetch_add(&g_sleeps, 1);
  }
  /* malformed durations */
  struct timespec bad[4] = { { 0, -1 }, { 0, 1000000000L }, { -1, 0 }, { -5, 999999999L } };
  for (i = 0; i < 4; i++) {
    int rc = myth_nanosleep(&bad[i], 0);
    HK_CHECK(rc == EINVAL, "time:malformed-duration-accepted", "nanosleep({%ld,%ld}) returned %d, expected EINVAL", (long)bad[i].tv_sec, bad[i].tv_nsec, rc);
    atomic_fetch_add(&g_einval, 1);
  }
  struct timespec ok[3] = { { 0, 0 }, { 0, 999999999L }, { 0, 1 } };
  for (i = 0; i < 3; i++) {
    if (i == 1 && hk_below(r, 4)) continue;   /* a one-second sleep now and then only */
    int rc = myth_nanosleep(&ok[i], 0);
    HK_CHECK(rc == 0, "time:sleep-rc", "nanosleep({%ld,%ld}) returned %d", (long)ok[i].tv_sec, ok[i].tv_nsec, rc);
  }
}

typedef struct { myth_mutex_t m; _Atomic uint64_t unlock_ret; long hold_us; _Atomic int locked; } holder_t;
static void * holder_fn(void * a_) {
  holder_t * h = (holder_t *)a_;
  myth_mutex_lock(&h->m);
  atomic_store(&h->locked, 1);
  myth_usleep((useconds_t)h->hold_us);
  myth_mutex_unlock(&h->m);
  atomic_store(&h->unlock_ret, myth_verif_stamp());
  return 0;
}
typedef struct { long run_us; _Atomic int done; } target_t;
static void * target_fn(void * a_) { target_t * t = (target_t *)a_; myth_usleep((useconds_t)t->run_us); atomic_store(&t->done, 1); return (void *)0x77; }

static void real_timed_cases(hk_rng_t * r, int n) {
  int i;
  for (i = 0; i < n; i++) {
    if (hk_below(r, 2)) {
      holder_t h; memset(&h, 0, sizeof(h));
      myth_mutex_init(&h.m, 0);
      h.hold_us = (long[]){ 0, 200, 2000, 10000 }[hk_below(r, 4)];
      myth_thread_t ht = myth_create(holder_fn, &h);
      long budget_us = (long[]){ -1000, 0, 500, 5000, 3600000000L }[hk_below(r, 5)];
      struct timespec dl, after;
      clock_gettime(CLOCK_REALTIME, &dl);
      ts_add(&dl, budget_us / 1000000, 0, &dl);
      { long ns = dl.tv_nsec + (budget_us % 1000000) * 1000; if (ns < 0) { ns += 1000000000L; dl.tv_sec--; } dl.tv_sec += ns / 1000000000L; dl.tv_nsec = ns % 1000000000L; }
      uint64_t ur_before = atomic_load(&h.unlock_ret);
      uint64_t c0 = myth_verif_stamp();
      int rc = myth_mutex_timedlock(&h.m, &dl);
      clock_gettime(CLOCK_REALTIME, &after);
      if (rc == 0) { myth_mutex_unlock(&h.m); atomic_fetch_add(&g_timedlock_ok, 1); }
      else {
        HK_CHECK(rc == ETIMEDOUT, "time:timedlock-rc", "timedlock returned %d", rc);
        HK_CHECK(ts_gt(&after, &dl), "time:timedlock-timeout-before-deadline", "timedlock timed out but the clock had not passed its deadline");
        HK_CHECK(!(ur_before && ur_before < c0), "time:timedlock-failed-on-free-mutex",
                 "timedlock timed out although the only holder had returned from unlock before the call");
        atomic_fetch_add(&g_timedlock_to, 1);
      }
      myth_join(ht, 0);
      myth_mutex_destroy(&h.m);
    } else {
      target_t t; memset(&t, 0, sizeof(t));
      t.run_us = (long[]){ 0, 200, 2000, 10000 }[hk_below(r, 4)];
      myth_thread_t tt = myth_create(target_fn, &t);
      long budget_us = (long[]){ -1000, 0, 500, 5000, 3600000000L }[hk_below(r, 5)];
      struct timespec dl, after;
      clock_gettime(CLOCK_REALTIME, &dl);
      { long ns = dl.tv_nsec + (budget_us % 1000000) * 1000; dl.tv_sec += budget_us / 1000000; if (ns < 0) { ns += 1000000000L; dl.tv_sec--; } dl.tv_sec += ns / 1000000000L; dl.tv_nsec = ns % 1000000000L; }
      void * res = 0;
      int rc = myth_timedjoin(tt, &res, &dl);
      clock_gettime(CLOCK_REALTIME, &after);
      if (rc == 0) { HK_CHECK(res == (void *)0x77 && atomic_load(&t.done), "time:timedjoin-value", "timedjoin succeeded with %p, done=%d", res, atomic_load(&t.done)); atomic_fetch_add(&g_timedjoin_ok, 1); }
      else {
        HK_CHECK(rc == EBUSY || rc == ETIMEDOUT, "time:timedjoin-rc", "timedjoin returned %d", rc);
        HK_CHECK(ts_gt(&after, &dl), "time:timedjoin-timeout-before-deadline", "timedjoin gave up but the clock had not passed its deadline");
        atomic_fetch_add(&g_timedjoin_to, 1);
        myth_join(tt, 0);
      }
    }
  }
}

/* ---------------------------------------------------------------- virtual clock (1 worker, deterministic) */
static struct { long ssec, snsec; } g_step;
static void vstart(long sec, long nsec, long ssec, long snsec) { g_step.ssec = ssec; g_step.snsec = snsec; myth_verif_vclock_enable2(sec, nsec, ssec, snsec); }

/* after a call that ended by time-out: the last reading `now` must be the FIRST one strictly after the deadline */
static void check_first_reading_after(const char * what, const struct timespec * deadline, uint64_t reads) {
  struct timespec now, prev;
  myth_verif_vclock_peek(&now);
  ts_sub_step(&now, g_step.ssec, g_step.snsec, &prev);
  char key[96];
  snprintf(key, sizeof(key), "time:%s-timeout-before-deadline", what);
  HK_CHECK(ts_gt(&now, deadline), key, "%s ended at virtual time {%ld,%ld} which is not after its deadline {%ld,%ld}",
           what, (long)now.tv_sec, now.tv_nsec, (long)deadline->tv_sec, deadline->tv_nsec);
  snprintf(key, sizeof(key), "time:%s-overslept", what);
  HK_CHECK(reads < 2 || !ts_gt(&prev, deadline), key, "%s ended at virtual time {%ld,%ld} but the previous reading {%ld,%ld} was already after its deadline {%ld,%ld}",
           what, (long)now.tv_sec, now.tv_nsec, (long)prev.tv_sec, prev.tv_nsec, (long)deadline->tv_sec, deadline->tv_nsec);
}

static void virt_sleep_case(hk_rng_t * r) {
  /* start time and step chosen to hit carries and exact boundaries */
  long s0 = (long[]){ 1000, 1700000000L, 0, 4102444800L }[hk_below(r, 4)];
  long n0 = (long[]){ 0, 999999999L, 500000000L, 1, 999999000L }[hk_below(r, 5)];
  long ssec = 0, snsec = (long[]){ 1, 1000, 999999999L, 250000000L, 1000000L }[hk_below(r, 5)];
  struct timespec req;
  int big = hk_below(r, 6) == 0;
  if (big) { ssec = 1L << 34; snsec = 0; req.tv_sec = (1L << 40) - (long)hk_below(r, 3); req.tv_nsec = (long)hk_below(r, 2) * 999999999L; }
  else {
    long k = (long)hk_below(r, 12);           /* deadline k steps after the first reading, exactly or off by a nanosecond */
    long long tot = (long long)k * snsec + (long)hk_range(r, -1, 1);
    if (tot < 0) tot = 0;
    req.tv_sec = (long)(tot / 1000000000LL); req.tv_nsec = (long)(tot % 1000000000LL);
  }
  vstart(s0, n0, ssec, snsec);
  struct timespec first, unt;
  myth_verif_vclock_peek(&first);
  ts_add(&first, ssec, snsec, &first);          /* value the first reading will return */
  ts_add(&first, req.tv_sec, req.tv_nsec, &unt);
  int rc = hk_below(r, 2) ? myth_nanosleep(&req, 0) : (req.tv_sec == 0 && req.tv_nsec % 1000 == 0 ? myth_usleep((useconds_t)(req.tv_nsec / 1000)) : myth_nanosleep(&req, 0));
  HK_CHECK(rc == 0, "time:sleep-rc", "virtual-clock sleep returned %d", rc);
  check_first_reading_after("sleep", &unt, 2);
  myth_verif_vclock_disable();
  atomic_fetch_add(&g_vcases, 1);
}

static myth_mutex_t g_vm;
static _Atomic int g_release_after, g_vholder_done;
static void * vholder(void * a) {
  (void)a;
  myth_mutex_lock(&g_vm);
  int turns = atomic_load(&g_release_after), i;
  /* the first yield hands control back to the creator; the mutex is released at resumption number turns+1 */
  for (i = 0; i <= turns || turns < 0; i++) { if (turns < 0 && atomic_load(&g_vholder_done)) break; myth_yield_ex(myth_yield_option_local_only); }
  myth_mutex_unlock(&g_vm);
  return 0;
}
static _Atomic int g_finish_after, g_vtarget_stop;
static void * vtarget(void * a) {
  (void)a;
  int turns = atomic_load(&g_finish_after), i;
  for (i = 0; i < turns || turns < 0; i++) { if (turns < 0 && atomic_load(&g_vtarget_stop)) break; myth_yield_ex(myth_yield_option_local_only); }
  return (void *)0x99;
}

static void virt_timed_case(hk_rng_t * r) {
  long s0 = 1000 + (long)hk_below(r, 5), n0 = (long[]){ 0, 999999999L, 123456789L }[hk_below(r, 3)];
  long snsec = (long[]){ 1000, 999999999L, 500000000L }[hk_below(r, 3)];
  int k = (int)hk_below(r, 8);             /* deadline = start + k steps (+/- 1 ns) : k==0 -> already past or equal */
  long off = (long)hk_range(r, -1, 1);
  int lockcase = (int)hk_below(r, 2);
  int never = (int)hk_below(r, 2);         /* holder/target outlives the deadline */
  int after_turns = (int)hk_below(r, 4);   /* otherwise it is done after this many of its own turns */
  struct timespec start, dl;
  if (lockcase) {
    myth_mutex_init(&g_vm, 0);
    atomic_store(&g_release_after, never ? -1 : after_turns); atomic_store(&g_vholder_done, 0);
    myth_thread_t h = myth_create(vholder, 0);      /* child-first: the holder takes the mutex and yields back to us */
    HK_CHECK(myth_mutex_trylock(&g_vm) == EBUSY, "time:harness", "holder did not take the mutex first");
    vstart(s0, n0, 0, snsec);
    myth_verif_vclock_peek(&start);
    { long long tot = (long long)k * snsec + off; long ns; dl = start; if (tot < 0) { ts_sub_step(&start, 0, 1, &dl); } else { ns = (long)(tot % 1000000000LL); ts_add(&start, (long)(tot / 1000000000LL), ns, &dl); } }
    uint64_t reads0 = myth_verif_vclock_reads();
    int rc = myth_mutex_timedlock(&g_vm, &dl);
    uint64_t reads = myth_verif_vclock_reads() - reads0;
    if (rc == 0) {
      /* success is legitimate only if the holder had released: it releases after `after_turns` of its turns,
         and it gets one turn per failed attempt of ours (1 worker, local yields) */
      HK_CHECK(!never, "time:timedlock-succeeded-on-held-mutex", "timedlock returned 0 while the holder never released");
      struct timespec now; myth_verif_vclock_peek(&now);
      myth_mutex_unlock(&g_vm);
      atomic_fetch_add(&g_timedlock_ok, 1);
    } else {
      HK_CHECK(rc == ETIMEDOUT, "time:timedlock-rc", "timedlock returned %d", rc);
      check_first_reading_after("timedlock", &dl, reads);
      /* the holder is released after `after_turns` yields of its own; each of our failed attempts yields once,
         so after after_turns+1 attempts the mutex is free: a time-out is wrong if that many readings were <= deadline */
      if (!never) {
        /* readings 1..reads-1 were <= deadline, each followed by an attempt; the call makes 1 + (reads-1) attempts */
        HK_CHECK((long)reads - 1 <= after_turns + 1, "time:timedlock-failed-on-free-mutex",
                 "timedlock timed out after %llu clock readings although the holder released after %d of its turns (deadline %d steps away)",
                 (unsigned long long)reads, after_turns, k);
      }
      atomic_fetch_add(&g_timedlock_to, 1);
    }
    myth_verif_vclock_disable();
    atomic_store(&g_vholder_done, 1);
    myth_join(h, 0);
    myth_mutex_destroy(&g_vm);
  } else {
    atomic_store(&g_finish_after, never ? -1 : after_turns); atomic_store(&g_vtarget_stop, 0);
    myth_thread_attr_t at; myth_thread_attr_init(&at); at.child_first = 0;     /* we keep running; the target gets turns when we yield */
    myth_thread_t t; myth_create_ex(&t, &at, vtarget, 0);
    vstart(s0, n0, 0, snsec);
    myth_verif_vclock_peek(&start);
    { long long tot = (long long)k * snsec + off; if (tot < 0) ts_sub_step(&start, 0, 1, &dl); else ts_add(&start, (long)(tot / 1000000000LL), (long)(tot % 1000000000LL), &dl); }
    void * res = 0;
    uint64_t reads0 = myth_verif_vclock_reads();
    int rc = myth_timedjoin(t, &res, &dl);
    uint64_t reads = myth_verif_vclock_reads() - reads0;
    if (rc == 0) {
      HK_CHECK(!never && res == (void *)0x99, "time:timedjoin-succeeded-on-running-thread", "timedjoin returned 0 (value %p) although the target never finished", res);
      atomic_fetch_add(&g_timedjoin_ok, 1);
      myth_verif_vclock_disable();
    } else {
      HK_CHECK(rc == EBUSY || rc == ETIMEDOUT, "time:timedjoin-rc", "timedjoin returned %d", rc);
      check_first_reading_after("timedjoin", &dl, reads);
      if (!never) {
        /* the target needs after_turns+1 turns (its yields, then finishing); we give one turn per failed attempt */
        HK_CHECK((long)reads - 1 <= after_turns + 1, "time:timedjoin-failed-on-finished-thread",
                 "timedjoin gave up after %llu clock readings although the target finished after %d of its turns (deadline %d steps away)",
                 (unsigned long long)reads, after_turns, k);
      }
      atomic_fetch_add(&g_timedjoin_to, 1);
      myth_verif_vclock_disable();
      atomic_store(&g_vtarget_stop, 1);
      myth_join(t, 0);
    }
  }
  atomic_fetch_add(&g_vcases, 1);
}

int main(int argc, char ** argv) {
  hk_init(argc, argv);
  uint64_t seed = hk_seed();
  const char * mode = hk_arg_s("mode", "real");
  int cases = (int)hk_arg("cases", 200);
  hkm_setup();
  hk_rng_t r; hk_rng_seed(&r, seed, 90);
  if (!strcmp(mode, "virtual")) {
    HK_CHECK(myth_get_num_workers() == 1, "time:harness", "virtual-clock mode needs exactly one worker");
    int i;
    for (i = 0; i < cases; i++) { if (hk_below(&r, 2)) virt_sleep_case(&r); else virt_timed_case(&r); }
    hk_sample("virtual clock: %d cases; start times with nsec 0/1/5e8/999999999, steps 1 ns..1 s and 2^34 s, deadlines k steps away +-1 ns, durations up to 2^40 s", cases);
  } else {
    myth_thread_t sib = myth_create(sibling, 0);
    real_sleep_cases(&r, cases / 2);
    real_timed_cases(&r, cases / 2);
    atomic_store(&g_sib_stop, 1);
    myth_join(sib, 0);
    hk_sample("real clock: %d sleep calls (usleep/nanosleep/sleep, 0..20 ms, one 1 s), EINVAL probes, %d timedlock/timedjoin cases with budgets -1ms..1h", cases / 2, cases / 2);
  }
  hk_report("sleep_calls", atomic_load(&g_sleeps));
  hk_report("einval_probes", atomic_load(&g_einval));
  hk_report("sibling_progress_checks", atomic_load(&g_sibling_checks));
  hk_report("timedlock_timeouts", atomic_load(&g_timedlock_to));
  hk_report("timedlock_successes", atomic_load(&g_timedlock_ok));
  hk_report("timedjoin_timeouts", atomic_load(&g_timedjoin_to));
  hk_report("timedjoin_successes", atomic_load(&g_timedjoin_ok));
  hk_report("virtual_clock_cases", atomic_load(&g_vcases));
  hk_report("workers", myth_get_num_workers());
  return hk_finish();
}
