#!/bin/bash
# usage: mutant_run.sh <patch-file> <PROP> [tier] [seed]
# applies the patch to a scratch worktree of /repo (outside /repo and /verif), runs the
# check against it (VERIF_REPO), prints the verdict, removes the worktree.
set -u
patch=$(readlink -f "$1"); prop=$2; tier=${3:-quick}; seed=${4:-1}
wt=$(mktemp -d /tmp/mut-XXXXXX)
rmdir "$wt"
git -C /repo worktree add -q --detach "$wt" HEAD || exit 2
trap 'git -C /repo worktree remove --force "$wt" >/dev/null 2>&1; rm -rf "$wt"' EXIT
if ! git -C "$wt" apply "$patch"; then echo "PATCH-FAILED $patch"; exit 2; fi
cd /verif
out=$(VERIF_REPO="$wt" VERIF_EVIDENCE_DIR=/tmp/mut-evidence VERIF_SEED=$seed ./vcheck "$prop" "$tier" 2>&1)
rc=$?
keys=$(echo "$out" | grep -o "key=[^ ]*" | sort | uniq -c | sort -rn | head -5 | tr '\n' ';')
echo "MUTANT $(basename "$patch") prop=$prop tier=$tier seed=$seed rc=$rc keys: $keys"
exit 0
