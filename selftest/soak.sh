#!/bin/bash
# soak.sh <seed>... : runs every quick check once per seed on the current tree; evidence goes to a scratch
# directory; prints one line per (check, seed); any non-zero exit is a false alarm to investigate
cd /verif
for seed in "$@"; do
  for p in C01 C02 C03 C04 C05 C06 C07 C08 C09 C10 C11 C12 C13 C14 C15 C16 C17 C18 C19 C20; do
    t0=$(date +%s)
    out=$(VERIF_SEED=$seed VERIF_EVIDENCE_DIR=/tmp/soak-evidence ./vcheck $p quick 2>&1)
    rc=$?
    keys=$(echo "$out" | grep -o "key=[^ ]*" | sort | uniq -c | sort -rn | head -4 | tr '\n' ';')
    echo "SOAK $p seed=$seed rc=$rc $(( $(date +%s) - t0 ))s $keys"
    if [ $rc -ne 0 ]; then mkdir -p /tmp/soak-fail; echo "$out" | tail -n 40 > /tmp/soak-fail/$p-$seed.log; cp -r /tmp/soak-evidence/replays /tmp/soak-fail/replays-$p-$seed 2>/dev/null; fi
  done
done
