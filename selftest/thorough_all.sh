#!/bin/bash
# thorough_all.sh [ids...] : runs the thorough tier of every check (or the given ones) once, sequentially;
# evidence goes to a scratch directory unless KEEP_EVIDENCE=1; prints one line per check
cd /verif
ids=${@:-C01 C02 C03 C04 C05 C06 C07 C08 C09 C10 C11 C12 C13 C14 C15 C16 C17 C18 C19 C20}
for p in $ids; do
  t0=$(date +%s)
  if [ "${KEEP_EVIDENCE:-0}" = 1 ]; then out=$(./vcheck $p thorough 2>&1); else out=$(VERIF_EVIDENCE_DIR=/tmp/thorough-evidence ./vcheck $p thorough 2>&1); fi
  rc=$?
  keys=$(echo "$out" | grep -o "key=[^ ]*" | sort | uniq -c | sort -rn | head -4 | tr '\n' ';')
  echo "THOROUGH $p rc=$rc $(( $(date +%s) - t0 ))s $keys"
  if [ $rc -ne 0 ]; then mkdir -p /tmp/thorough-fail; echo "$out" | tail -n 60 > /tmp/thorough-fail/$p.log; fi
done
