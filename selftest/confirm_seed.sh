#!/bin/bash
# confirm_seed.sh <id> <workers> <runs> [demo args...]
# Confirms a seeded change by hand-independent steps, in scratch worktrees under /tmp:
#  1. the patch applies to /repo HEAD, the tree configures, builds and `make check` reports 257 passes;
#  2. the demonstration fails with the patch and passes without it (same demo, unpatched worktree).
# Environment: CS_LINK=dr (also link libdr, run with the profiler's .libs on LD_LIBRARY_PATH),
#              CS_LINK=wrap (link-time pthread wrapping: @myth-ld.opts -lmyth-ld), CS_ENV="K=V ..." extra environment of the demo.
# Prints one CONFIRM line; removes the worktrees.
set -u
id=$1; nw=$2; runs=$3; shift 3
S=/verif/seeded/$id
P=/tmp/cs-$id-patched; U=/tmp/cs-unpatched
cleanup() { git -C /repo worktree remove --force $P >/dev/null 2>&1; rm -rf $P; }
trap cleanup EXIT
rm -rf $P; git -C /repo worktree add -q --detach $P HEAD || exit 2
git -C $P apply $S/patch.diff || { echo "CONFIRM $id patch-does-not-apply"; exit 2; }
(cd $P && ./configure >/dev/null 2>&1 && make -j8 >/dev/null 2>&1) || { echo "CONFIRM $id build-failed"; exit 2; }
pass=$(cd $P && make check -j8 2>/dev/null | grep -E "^# PASS:" | tail -1 | awk '{print $3}')
if [ ! -d $U/src/.libs ]; then
  rm -rf $U; git -C /repo worktree add -q --detach $U HEAD && (cd $U && ./configure >/dev/null 2>&1 && make -j8 >/dev/null 2>&1)
fi
demo=$S/demo.c; cc=gcc; [ -f $S/demo.cc ] && { demo=$S/demo.cc; cc=g++; }
case "${CS_LINK:-}" in
  dr)   LINK="-I$P/src/profiler -L$P/src/profiler/.libs -ldr -L$P/src/.libs -lmyth -lpthread -ldl"; LSUB="src/profiler/.libs:" ;;
  wrap) LINK="@$P/src/myth-ld.opts -L$P/src/.libs -lmyth-ld -lpthread -ldl"; LSUB="" ;;
  *)    LINK="-L$P/src/.libs -lmyth -lpthread -ldl"; LSUB="" ;;
esac
$cc -O2 -g -I$P/include -I$P/src $demo -o /tmp/cs-$id-demo $LINK 2>/tmp/cs-$id-cc.log || { echo "CONFIRM $id demo-build-failed"; exit 2; }
# the same demo built against the unpatched tree (matters for changes in headers that clients inline, e.g. mtbb)
ULINK=$(echo "$LINK" | sed "s#$P#$U#g")
$cc -O2 -g -I$U/include -I$U/src $demo -o /tmp/cs-$id-demo-U $ULINK 2>>/tmp/cs-$id-cc.log || { echo "CONFIRM $id demo-build-failed (unpatched)"; exit 2; }
fp=0; fu=0
for i in $(seq 1 $runs); do
  lp=$P/src/.libs; lu=$U/src/.libs
  [ -n "$LSUB" ] && { lp=$P/src/profiler/.libs:$lp; lu=$U/src/profiler/.libs:$lu; }
  env MYTH_BIND_WORKERS=0 MYTH_NUM_WORKERS=$nw ${CS_ENV:-} LD_LIBRARY_PATH=$lp timeout 300 /tmp/cs-$id-demo "$@" >/dev/null 2>&1 || fp=$((fp+1))
  env MYTH_BIND_WORKERS=0 MYTH_NUM_WORKERS=$nw ${CS_ENV:-} LD_LIBRARY_PATH=$lu timeout 300 /tmp/cs-$id-demo-U "$@" >/dev/null 2>&1 || fu=$((fu+1))
done
echo "CONFIRM $id make-check-pass=$pass demo-fails-with-patch=$fp/$runs demo-fails-without-patch=$fu/$runs (workers=$nw args=$* link=${CS_LINK:-myth} env=${CS_ENV:-})"
rm -f /tmp/cs-$id-demo /tmp/cs-$id-demo-U
