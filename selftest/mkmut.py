#!/usr/bin/env python3
"""mkmut.py <name> <file-relative-to-repo> <<< JSON list of [old,new] pairs  -> selftest/mutants/<name>.diff"""
import sys, json, subprocess, os, tempfile
name, rel = sys.argv[1], sys.argv[2]
pairs = json.load(sys.stdin)
src = open(os.path.join('/repo', rel)).read()
m = src
for old, new in pairs:
    assert m.count(old) == 1, "anchor must be unique: %r (found %d)" % (old[:60], m.count(old))
    m = m.replace(old, new)
d = tempfile.mkdtemp()
open(d + '/a', 'w').write(src); open(d + '/b', 'w').write(m)
out = subprocess.run(['diff', '-u', '--label', 'a/' + rel, '--label', 'b/' + rel, d + '/a', d + '/b'], capture_output=True, text=True).stdout
open(os.path.join(os.path.dirname(os.path.abspath(__file__)), 'mutants', name + '.diff'), 'w').write(out)
print(out)
